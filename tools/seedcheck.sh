#!/bin/sh
# tools/seedcheck.sh <PROP> <i> [extra props...]
# Confirms a sub-agent's seeded change /tmp/seed/<PROP>/out/change<i>.diff in a scratch worktree:
#   patch applies, repository test suite passes with it, demo passes on /repo and fails on the changed tree;
# then runs the quick tier of <PROP> (and extra props) against it and files everything under /verif/seeded/<PROP>-<i>/.
set -u
V=$(cd "$(dirname "$0")/.." && pwd)
P=$1; I=$2; shift 2
SRC=/tmp/seed/$P/out
if [ ! -f "$SRC/change$I.diff" ]; then
  # re-run from the filed copy
  SRC=$(mktemp -d /tmp/vlark-seedsrc-XXXXXX)
  cp "$V/seeded/$P-$I/patch.diff" "$SRC/change$I.diff" || { echo "no seed $P-$I"; exit 2; }
  cp "$V/seeded/$P-$I/demo.py" "$SRC/demo$I.py"
  [ -f "$V/seeded/$P-$I/notes.md" ] && cp "$V/seeded/$P-$I/notes.md" "$SRC/notes$I.md"
fi
D=$(mktemp -d /tmp/vlark-seed-XXXXXX)
git -C /repo worktree add -q --detach "$D/repo" HEAD || exit 2
cleanup() { git -C /repo worktree remove --force "$D/repo" 2>/dev/null; rm -rf "$D"; git -C /repo worktree prune; }
trap cleanup EXIT INT TERM
git -C "$D/repo" apply "$SRC/change$I.diff" || { echo "PATCH DOES NOT APPLY"; exit 2; }
stat=$(git -C "$D/repo" diff --stat | tail -1)
( cd "$D/repo" && /venv/bin/python -m pytest -q -p no:cacheprovider -n 6 -o addopts="" > "$D/pytest.log" 2>&1 ); trc=$?
tests=$(grep -E "passed|failed" "$D/pytest.log" | tail -1)
/venv/bin/python "$SRC/demo$I.py" /repo > "$D/demo_orig.log" 2>&1; d0=$?
/venv/bin/python "$SRC/demo$I.py" "$D/repo" > "$D/demo_mut.log" 2>&1; d1=$?
echo "$P-$I: $stat | tests rc=$trc ($tests) | demo orig rc=$d0 changed rc=$d1"
ok=1
[ $trc -eq 0 ] && [ $d0 -eq 0 ] && [ $d1 -ne 0 ] || { ok=0; echo "  NOT CONFIRMED (need tests pass, demo 0 on original, non-zero on changed)"; }
results=""
for Q in "$P" "$@"; do
  out=$(cd "$V" && VLARK_REPO="$D/repo" VLARK_OUT="$D/out" ./check "$Q" --tier "${SEED_TIER:-quick}" 2>&1)
  if echo "$out" | grep -q "^VIOLATION property=$Q"; then
    mech=$(echo "$out" | grep -A1 '^VIOLATION' | grep mechanism | sed 's/ *mechanism: //' | sort | uniq -c | sort -rn | head -3 | tr '\n' ';')
    echo "  $Q: CAUGHT $mech"; results="$results $Q:caught"
  else
    echo "  $Q: MISSED $(echo "$out" | grep -E 'HELD|INCONCLUSIVE' | head -1 | cut -c1-160)"; results="$results $Q:missed"
  fi
done
if [ $ok -eq 1 ]; then
  T="$V/seeded/$P-$I"; mkdir -p "$T"
  cp "$SRC/change$I.diff" "$T/patch.diff"; cp "$SRC/demo$I.py" "$T/demo.py"; [ -f "$SRC/notes$I.md" ] && cp "$SRC/notes$I.md" "$T/notes.md"
  /venv/bin/python - "$T" "$P" "$stat" "$tests" "$d0" "$d1" "$results" <<'PY'
import json, sys, subprocess
T, P, stat, tests, d0, d1, results = sys.argv[1:8]
head = subprocess.run(['git','-C','/repo','rev-parse','--short','HEAD'],capture_output=True,text=True).stdout.strip()
notes = ''
try: notes = open(T + '/notes.md').read()
except Exception: pass
json.dump({'breaks_property': P, 'written_by': 'independent sub-agent given only the property text', 'base_commit': head,
           'diffstat': stat, 'needs_to_manifest': notes[:1500],
           'confirmed': {'repository_tests_with_change': tests, 'demo_exit_on_original': int(d0), 'demo_exit_on_changed': int(d1)},
           'checks_run': dict(x.split(':') for x in results.split())}, open(T + '/meta.json', 'w'), indent=1)
PY
fi

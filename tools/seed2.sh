#!/bin/sh
# tools/seed2.sh <PROP> [extra props for change1] -- [extra props for change2]
# files round-2 seeds /tmp/seed2/<PROP>/out/change{1,2}.diff as <PROP>-3 / <PROP>-4 and runs seedcheck on them
P=$1; shift
mkdir -p /tmp/seed/$P/out
for i in 1 2; do
  j=$((i+2))
  [ -f /tmp/seed2/$P/out/change$i.diff ] || continue
  cp /tmp/seed2/$P/out/change$i.diff /tmp/seed/$P/out/change$j.diff
  cp /tmp/seed2/$P/out/demo$i.py /tmp/seed/$P/out/demo$j.py
  [ -f /tmp/seed2/$P/out/notes$i.md ] && cp /tmp/seed2/$P/out/notes$i.md /tmp/seed/$P/out/notes$j.md
done
X1=""; X2=""; cur=1
for a in "$@"; do if [ "$a" = "--" ]; then cur=2; elif [ $cur = 1 ]; then X1="$X1 $a"; else X2="$X2 $a"; fi; done
"$(dirname "$0")/seedcheck.sh" $P 3 $X1
"$(dirname "$0")/seedcheck.sh" $P 4 $X2

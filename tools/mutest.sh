#!/bin/sh
# tools/mutest.sh <patch-file | -e 'sed-expr' file> -- <PROP> [PROP...]
# applies a change to a scratch worktree of /repo (outside /repo and /verif), runs the quick tier of the
# given properties against it (evidence/replays go to the scratch dir too), removes the worktree.
# exit status: 0 if every listed property reported a VIOLATION, 1 otherwise.
set -u
V=$(cd "$(dirname "$0")/.." && pwd)
D=$(mktemp -d /tmp/vlark-mut-XXXXXX)
git -C /repo worktree add -q --detach "$D/repo" HEAD || exit 2
cleanup() { git -C /repo worktree remove --force "$D/repo" 2>/dev/null; rm -rf "$D"; git -C /repo worktree prune; }
trap cleanup EXIT INT TERM
if [ "$1" = "-e" ]; then
  sed -i -e "$2" "$D/repo/$3" || exit 2
  shift 3
else
  git -C "$D/repo" apply "$1" || { echo "patch does not apply"; exit 2; }
  shift
fi
[ "$1" = "--" ] && shift
git -C "$D/repo" diff --stat | tail -1
if git -C "$D/repo" diff --quiet; then echo "NO CHANGE MADE"; exit 2; fi
rc=0
TIER=${MUTEST_TIER:-quick}
for P in "$@"; do
  out=$(cd "$V" && VLARK_REPO="$D/repo" VLARK_OUT="$D/out" ./check "$P" --tier "$TIER" 2>&1)
  if echo "$out" | grep -q "^VIOLATION property=$P"; then
    echo "$P: CAUGHT  $(echo "$out" | grep -A1 '^VIOLATION' | grep mechanism | sort | uniq -c | sort -rn | head -3 | tr '\n' ';')"
  else
    echo "$P: MISSED  $(echo "$out" | grep -E 'HELD|INCONCLUSIVE' | head -2 | cut -c1-200)"
    rc=1
  fi
done
exit $rc

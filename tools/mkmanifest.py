#!/venv/bin/python
"""regenerates MANIFEST.json from the table below (kept as a script so the manifest is always
schema-valid and in step with the props that exist)"""
import json, os, sys
V = os.path.dirname(os.path.dirname(os.path.abspath(__file__)))
sys.path.insert(0, V)

CHECKS = {
 'C01': dict(level='exploration', technique='differential runtime monitor: real Earley parser vs reference chart over generated grammars/inputs; step-budget watchdog for termination',
             text='Every (grammar, lexer, input) execution of the real parser is judged by an independent membership oracle; held means no disagreement on the explored cases (tens of thousands per run), not a proof over all grammars.',
             note='Trusts CPython re per terminal and the reference chart (cross-checked by a second recogniser before any alarm). Termination is a logical step budget.', ref='4 C01'),
}
PENDING = {}

def main():
    props = [json.loads(l) for l in open(os.path.join(V, 'properties.jsonl'))]
    checks = []
    na = []
    for p in props:
        pid = p['id']
        c = CHECKS.get(pid)
        if c is None:
            na.append({'property_id': pid, 'reason': PENDING.get(pid, 'check not built yet (runtime monitor planned in DESIGN.md section 4)')})
            continue
        checks.append({
            'property_id': pid,
            'quick_cmd': './check %s --tier quick' % pid,
            'thorough_cmd': './check %s --tier thorough' % pid,
            'evidence_file': 'evidence/%s.json' % pid,
            'replay_cmd_template': './check %s --replay {path}' % pid,
            'engine': 'vlark',
            'level_claimed': {'category': c['level'], 'text': c['text'], 'design_ref': 'DESIGN.md section ' + c['ref']},
            'level_note': c['note'],
            'technique': c['technique'],
        })
    m = {
        'version': 1,
        'setup_cmd': 'sh ./setup.sh',
        'hooks': {'guard': 'LARK_VERIF', 'enable': 'no source hooks in /repo: workers run /repo\'s working tree via PYTHONPATH with monitors attached from outside (sys.monitoring, wrappers); LARK_VERIF=1 is set in workers for symmetry only',
                  'baseline_off_cmd': 'cd /repo && /venv/bin/python -m pytest -ra -q -p no:cacheprovider --timeout=900 --continue-on-collection-errors',
                  'source_commits': [], 'add_only': True},
        'engines': [{'name': 'vlark', 'path': 'vlark/', 'serves_properties': [c['property_id'] for c in checks],
                     'kind_free_text': 'runtime monitoring harness: seeded workload generators, boundary recorder, reference-model oracles, sys.monitoring step budgets / reach / thread scheduler, fault injectors'}],
        'checks': checks,
        'not_applicable': na,
        'notes': 'Exit codes: 0 held, 1 violation (VIOLATION line + replay file), 3 inconclusive (never expected on the unchanged tree). Known findings: known_findings.json.',
    }
    with open(os.path.join(V, 'MANIFEST.json'), 'w') as f:
        json.dump(m, f, indent=1)
    print('checks', len(checks), 'not_applicable', len(na))

if __name__ == '__main__':
    main()

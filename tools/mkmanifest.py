#!/venv/bin/python
"""regenerates MANIFEST.json from the table below (kept as a script so the manifest is always
schema-valid and in step with the props that exist)"""
import json, os, sys
V = os.path.dirname(os.path.dirname(os.path.abspath(__file__)))
sys.path.insert(0, V)

CHECKS = {
 'C01': dict(level='exploration', technique='differential runtime monitor: real Earley parser vs reference chart over generated grammars/inputs; step-budget watchdog for termination',
             text='Every (grammar, lexer, input) execution of the real parser is judged by an independent membership oracle; held means no disagreement on the explored cases (tens of thousands per run), not a proof over all grammars.',
             note='Trusts CPython re per terminal and the reference chart (cross-checked by a second recogniser before any alarm). Termination is a logical step budget.', ref='4 C01'),
 'C02': dict(level='exploration', technique='differential runtime monitor: lark LALR(1) (GrammarError, accept/reject, choices()/accepts() per state, debug table, rebuild determinism) vs reference canonical-LR(1)-merged automaton and reference chart',
             text='For every generated grammar the real LALR construction and parser are compared with an independently built LALR(1) automaton (canonical LR(1) merged by core): reduce/reduce verdict, accept/reject of every input under both lexers, soundness/completeness against the EBNF language, the next-token row and accepts() after a shortest viable prefix to every automaton state, the debug=True table by item-set cores, and equality of the table across repeated constructions.',
             note='Takes the compiled BNF (Lark.rules) as the grammar of the automaton. Non-reduced grammars judged for soundness only; completeness only on conflict-free grammars; inputs on which the conflict-resolved automaton itself reduces forever are counted, not judged.', ref='4 C02'),
 'C03': dict(level='exploration', technique='differential runtime monitor: trees returned by every engine vs documented shaping applied to reference derivations',
             text='Every returned tree (Earley x3 lexers, LALR x2, CYK; keep_all_tokens/maybe_placeholders on and off) is compared with the set of documented shapings of the reference derivations of the same input; engines must agree on single-derivation inputs. Exploration over generated EBNF grammars using every shaping feature.',
             note='Trusts the reference enumerator and Shaper (written from docs/tree_construction.md); cyclic grammars and grammars with duplicate empty expansions are skipped and counted.', ref='4 C03'),
 'C04': dict(level='exploration', technique='differential runtime monitor: expansion of _ambig trees vs reference derivation enumeration; step budget on cyclic grammars',
             text="For every accepted input of generated ambiguous grammars the set of trees denoted by the ambiguity='explicit' result is compared with all shaped reference derivations (acyclic) or validated as derivations within a step budget (cyclic); CollapseAmbiguities is checked against an independent expander.",
             note='Trusts reference chart/enumerator/shaper; inputs with >300 derivations are skipped and counted.', ref='4 C04'),
 'C05': dict(level='exploration', technique='runtime monitor: priority optimum vs reference enumeration; determinism by re-execution across calls, instances and PYTHONHASHSEED processes',
             text="The tree returned under ambiguity='resolve' is checked to be a derivation whose total priority is the reference optimum (normal/invert), to respect the empty-alternative precedence, and to be bit-identical across repeated calls, fresh instances (earlier ones kept alive, so that address-dependent orders show) and fresh processes under several hash seeds.",
             note='Hash seeds are sampled (4 quick / 8 thorough). Optimum judged only on acyclic grammars without directly empty alternatives, as the statement says.', ref='4 C05'),
 'C06': dict(level='exploration', technique='runtime monitor: every token/meta coordinate recomputed from the buffer (R6); node meta vs the span of the reference derivation node (filtered tokens included) on generated EBNF grammars; LineCounter.feed contract',
             text='Every token of every accepted parse (5 parser/lexer pairs, str and bytes) is checked against the buffer slice and newline arithmetic; every tree node meta against the first/last token of the same node in a keep_all_tokens parse and, on generated EBNF grammars with every shaping feature, against the span of the node in the reference derivation. Newline-capable terminal spellings are enumerated in the generator.',
             note='Trusts newline counting on the buffer and the reference enumerator/shaper for spans (single-derivation inputs only). Known finding F-C06-1 (?-rule collapsing to a token).', ref='4 C06'),
 'C07': dict(level='exploration', technique='differential runtime monitor: Lark.lex token stream vs reference lexer written from the documented precedence; basic vs contextual trees',
             text='Token streams of the basic lexer over generated terminal sets (strings/regexps/priorities/flags, up to 150 terminals) are compared with a reference lexer implementing the documented order and keyword exception; on grammars with disjoint regexps the contextual lexer must return the same tree whenever basic succeeds.',
             note='Trusts CPython re / regex on a single terminal; all unbounded regexps have equal width.', ref='4 C07'),
 'C08': dict(level='exploration', technique='runtime monitor: exception class/position/continuation sets of every rejection vs reference viable-prefix closure (token level and scannerless) and reference LR driver; step budget for hangs',
             text='Every rejection of generated near-miss inputs under six parser/lexer pairs is checked: exception class, offending token or character offset and line/column against the first non-extendable position computed by an independent reference, $END coordinates, and the stated set relations (dynamic: exact, Earley+basic: superset, LALR: accepts subset of legal next terminals and of expected).',
             note='Exact positions/sets on reduced grammars only (with useless symbols: never-earlier). Known finding F-C08-1 ($END missing from expected under the contextual lexer).', ref='4 C08'),
 'C09': dict(level='exploration', technique='runtime monitor: acceptance and child counts of x~n..m vs arithmetic oracle; small_factors contract',
             text='For (n,m) pairs around every threshold of the factoring code (quick) and every 0<=n<=m<=140 (thorough, LALR+terminal) the parser must accept exactly k in [n,m] repetitions and return the k occurrences as consecutive children with no helper node; a contract on small_factors counts every call.',
             note='Bounds sampled up to 400; oracle is integer arithmetic.', ref='4 C09'),
 'C10': dict(level='exploration', technique='runtime monitor: history-independence oracle (every call vs fresh instance), instance-state fingerprint invariant at quiescent points, seeded line-level thread scheduler (sys.monitoring) with sequential-result oracle',
             text='Random call histories (parse/lex/scan/interactive, failing and abandoned calls, other instances built in between, Indenter streams ending in DedentError or abandoned mid-block) on one instance: every result must equal the fresh-instance result and the digest of all instance-reachable state must stay constant after warm-up (lazy caches may appear once). Threads: 2-4 threads use a fresh instance under thousands of seeded, replayable statement-level interleavings of the lexer/front-end code; every thread must get the sequential result.',
             note='Interleavings are sampled, at statement granularity, in the instrumented functions; callbacks are pure. Post-lexer fields are excluded from the digest (judged by behaviour).', ref='4 C10'),
 'C11': dict(level='exploration', technique='differential runtime monitor: direct instance vs save/load vs cache-served vs generated stand-alone module on parse / interactive scripts / scan, duck-typed canonical outcomes',
             text='For generated and hand-written LALR grammars (imports, templates, priorities, flags, >100 terminals, bytes, multiple starts, embedded transformer, Indenter post-lexer) and option sets, every input is run through four parsers - built directly, restored from save(), served from the cache (confirmed by observing that load_grammar was not called) and instantiated from the module gen_standalone writes from the current sources - and the canonical outcomes (trees with all coordinates and meta, exception class/position/sets, accepts() after every token, scan spans) must be identical.',
             note='Stand-alone modules are executed in-process under unique names; Lark.load takes no options so transformer/postlex variants cover cache and stand-alone only.', ref='4 C11'),
 'C12': dict(level='fault_enumeration', technique='fault injection on the real cache file (truncation offsets, bit flips, spliced/foreign payloads, writer killed in a subprocess, key histories incl. python 3.11) with behaviour-vector oracle vs uncached build and cache-served observation',
             text='Every fault state of the cache file is followed by a real construction whose behaviour vector (canonical outcomes with positions on a fixed input set, terminal table, rules) must equal the uncached build; the constructor must not raise; a parser cached for another key must not be served (observed: load_grammar called or not); the file left behind must be a valid cache. Truncation offsets are enumerated (quick: every 16th + whole prologue; thorough: every offset), other faults sampled.',
             note='Known findings F-C12-1 (payload not integrity-checked) and F-C12-2 (edit_terminals / postlex.always_accept neither hashed nor re-applied). The grammar records three files (two modules and lark\'s own common.lark); histories edit either module, switch import_paths, and import the modules from a package through FromPackageLoader whose files change between constructions. Damaged-payload loads run in a forked child under memory and time limits.', ref='4 C12'),
 'C13': dict(level='exploration', technique='runtime monitor over fork histories of InteractiveParser handles: per-handle result vs parse() of its own text, re-canonicalisation of earlier results after every later operation, accepts() vs trial feeds and reference automaton, resume_parse vs manual feed / blanked text',
             text='Random fork trees (copy, copy.copy, as_immutable, as_mutable, immutable feed_token; forks after every prefix; diverging continuations; accepts()/choices() interleaved; random finishing order) on generated LALR grammars with inlined left-recursive lists, ?-rules, placeholders, propagate_positions and an embedded list-returning transformer. Every handle must end with exactly the parse() result of its own token sequence and no earlier result may change afterwards.',
             note='Expected values come from Lark.parse itself (judged by C02/C03). resume == parse of the blanked text only when the parser had not reduced on the bad lookahead; otherwise == manual feeding from a fork of the same state.', ref='4 C13'),
 'C14': dict(level='exploration', technique='differential runtime monitor: scan() vs a leftmost-longest emulation built from public parse()/parse_interactive() calls on TextSlice windows at every candidate position (where a start terminal matches); metamorphic bytes/window variants',
             text='For every generated text (sentences, near misses and junk with hostile joints) scan() must return exactly the list of (start, end, value) that an O(n^2) emulation finds by trying every start offset and every in-context token end with the real parse(); values include all token coordinates and meta in full-text coordinates; matches must be ordered, disjoint, bounded by their own first/last token, and invariant under bytes input and under embedding in a larger buffer.',
             note='A snippet counts as parseable from p only if its tokens are a prefix of the in-context token stream from p (scan lexes in context). Text length <= 40.', ref='4 C14'),
 'C15': dict(level='exploration', technique='metamorphic runtime monitor: str vs bytes vs TextSlice windows of hostile buffers, canonical outcomes compared after the coordinate shift the statement prescribes',
             text='Every generated text (accepted and rejected, with newlines in kept/ignored/filtered terminals) is parsed as str, as bytes with use_bytes=True, as a complete TextSlice and as windows of larger buffers whose neighbours would extend the first/last token or put the window mid-line; trees with all token coordinates and meta, and exception class/position, must agree after shifting by the window start.',
             note='ASCII only. Two grammar families: terminal-centred grammars (newlines in kept/ignored/filtered terminals) and grammars with tree structure (?-rules and inlined rules wrapped in filtered tokens) whose node meta must agree too. Context-sensitive regexps (\\b, look-behind, ^, $) are a separate class judged against finding F-C15-1; dynamic lexers refuse slices (documented).', ref='4 C15'),
 'C16': dict(level='exploration', technique='differential runtime monitor: embedded vs post transformation with generated pure transformers; four traversal classes compared on copies of the same tree with call-log checker (once per node, children first)',
             text='For generated LALR grammars with every shaping feature a pure transformer is generated per grammar (callbacks on random rules, aliases, template names and named terminals; plain, v_args(inline) and v_args(tree) styles); the embedded result must equal the post-transform result for every accepted input, and Transformer, Transformer_NonRecursive, Transformer_InPlace and Transformer_InPlaceRecursive must return equal results with exactly one logged call per node and no callback seeing an untransformed child.',
             note='__default__/__default_token__ untouched, no meta. Discard is used in the comparison of the four traversal classes only (a third of the callbacks return it; it is documented as disabled for the embedded mode), never on the root. Embedded in-place transformers are a separate class (finding F-C16-1).', ref='4 C16'),
 'C17': dict(level='exploration', technique='differential runtime monitor: a flat grammar vs its generated split into modules with %import / %override / %extend / templates, same lark, compared on language and tree sets modulo documented prefixes',
             text='Each generated flat grammar is split into main + one or two module files (single, multi and renaming imports; relative and import_paths resolution; transitive dependencies; local definitions named like non-imported module definitions; %ignore inside modules; overrides of imported rules, of namespaced dependencies and of terminals; extends of rules and terminals; templates defined in a module). The modular grammar must construct whenever the flat one does, accept the same inputs and return the same set of trees under ambiguity=explicit (same tree under LALR) after stripping module prefixes and undoing renames.',
             note='The flat side is interpreted by lark itself (judged by C03). Engines: Earley explicit, LALR, LALR with keep_all_tokens. After the comparison the module file is edited (a terminal gets another body) and the unchanged main text is loaded again in the same process: it must mean what the flat grammar with the same edit means. Terminals that coincide with a literal are not overridden/extended (binding of literals precedes the directive and has no textual equivalent). Finding F-C17-1.', ref='4 C17'),
 'C18': dict(level='exploration', technique="runtime monitor: INDENT/DEDENT event trace of the real post-lexer vs CPython's tokenize on the same text, vs a stack model on synthetic token streams; balance contract; stream-sequence (reuse) oracle",
             text="Generated python-like texts (mixed spaces/tabs, blank/comment lines, bracketed continuation lines, multi-level and non-matching dedents) are lexed with lark's python grammar + PythonIndenter and the INDENT/DEDENT/logical-line event sequence (and DedentError) must equal CPython's tokenizer's; synthetic token streams with own bracket types and tab_len 1-8 are compared with a stack model written from the statement; INDENT/DEDENT must balance at the end of every complete stream; after failed or abandoned streams the same Indenter object must behave like a fresh one.",
             note='Leading tabs are rewritten to tab_len spaces before CPython sees the text. Synthetic streams may be empty and contain tokens with empty or odd values. Two separate input classes carry finding F-C18-1.', ref='4 C18'),
 'C19': dict(level='exploration', technique='round-trip runtime monitor: parse -> Reconstructor.reconstruct -> parse on generated grammars whose membership in the supported class is verified by a reference LALR(1) and syntactic checks',
             text='Grammars are generated with every shaping feature, whitespace ignored and maybe_placeholders=False; each is admitted only if the reference LALR(1) of its compiled rules is conflict-free (hence unambiguous), it has no useless rules, filtered terminals are strings and every compiled alternative keeps an unfiltered symbol other than its own rule. For every sampled sentence and both parser types the reconstructed text must be accepted and parse to an equal tree, without exception.',
             note='Known findings: F-C19-1 (templates), F-C19-2 (?-rule handling of the tree matcher; classified by a static predicate on the compiled rules - some ?-alternative is provably misjudged by the matcher - AND differentially: the same round trip succeeds without the ? modifiers), F-C19-3 (?start returning its child). Corpus grammars: calculator with calls, nested lists/blocks, aliased recursion.', ref='4 C19'),
 'C20': dict(level='exploration', technique='differential runtime monitor: forest transformers/visitors vs reference derivation enumeration; step budget + on_cycle observation on cyclic forests',
             text="For every accepted input the SPPF returned under ambiguity='forest' is walked by TreeForestTransformer (both modes), a counting ForestTransformer and a ForestVisitor; results are compared with the reference enumeration over the compiled rules (acyclic) or validated under a step budget with on_cycle observed (cyclic).",
             note='Trusts reference enumerator over Lark.rules (the forest names helper rules).', ref='4 C20'),
}
PENDING = {}

# what changed in a check after its text above was written (kept separate so that the history is visible; DESIGN.md 9.2-9.6)
LATER = {
 'C01': 'Corpus also holds composite terminals (a terminal built from other terminals and regexps with alternations).',
 'C03': 'A CYK ParseError on a member is a violation on grammars without empty rules; corpus: template instances for a literal vs the named terminal it coincides with, parallel chains of unit rules under 24 sets of rule names. A construction that exceeds the step budget is counted, not judged.',
 'C04': 'Cyclic grammars: a budget overrun is a violation only if building the forest or a counting ForestVisitor walk over it does not end within the budget either (the number of explicit trees is exponential there).',
 'C06': 'A non-UnexpectedInput exception raised by parse() on a member with propagate_positions is a violation; corpus: explicitly empty rules next to filtered tokens under ?-rules.',
 'C07': 'The reference applies the keyword exception to every same-priority string terminal, decided on the matched text (no "which the regexp can spell" condition); a fifth of the term sets ignore one ordinary terminal.',
 'C08': 'Also: $END after a last token with an empty value; "allowed" of lexer errors under Earley+basic must contain the reference\'s next-terminal set (keywords inside a regexp).',
 'C09': 'Quick: every batch pairs the alt-group kind with bounds between 12 and 49 under a 4M-step construction budget. Thorough: every pair up to 8 for every kind and engine, every pair up to 140 for LALR+terminal, random bounds up to 600+400 until the budget is used.',
 'C10': 'Two ambiguous Earley configurations with priorities; history step "build a sibling instance from this instance\'s own Grammar object with another priority mode".',
 'C13': 'Terminal-ness is taken from the symbols (not str.isupper()); 30% of the grammars get literals "__" and "_1"; resume_parse() is run on the original, a copy() and an as_immutable() of every error state in random order; corpus grammar with empty nodes that are positioned by a later reduction.',
 'C14': 'A candidate from which the lexer first skips ignored text is not a match at that offset: the offsets inside the ignored text are candidates of their own (the statement, and lark\'s own test_scan_start_inside_ignored_regex_span).',
 'C20': 'Cyclic grammars: walks that follow every path (no single_visit) are excused for exceeding the step budget iff the walks that are linear in the forest (single_visit, the one-node walker) ended on the same forest.',
}

def main():
    props = [json.loads(l) for l in open(os.path.join(V, 'properties.jsonl'))]
    checks = []
    na = []
    for p in props:
        pid = p['id']
        c = CHECKS.get(pid)
        if c is None:
            na.append({'property_id': pid, 'reason': PENDING.get(pid, 'check not built yet (runtime monitor planned in DESIGN.md section 4)')})
            continue
        checks.append({
            'property_id': pid,
            'quick_cmd': './check %s --tier quick' % pid,
            'thorough_cmd': './check %s --tier thorough' % pid,
            'evidence_file': 'evidence/%s.json' % pid,
            'replay_cmd_template': './check %s --replay {path}' % pid,
            'engine': 'vlark',
            'level_claimed': {'category': c['level'], 'text': c['text'], 'design_ref': 'DESIGN.md section ' + c['ref']},
            'level_note': c['note'] + ((' Later: ' + LATER[pid]) if pid in LATER else ''),
            'technique': c['technique'],
        })
    m = {
        'version': 1,
        'setup_cmd': 'sh ./setup.sh',
        'hooks': {'guard': 'LARK_VERIF', 'enable': 'no source hooks in /repo: workers run /repo\'s working tree via PYTHONPATH with monitors attached from outside (sys.monitoring, wrappers); LARK_VERIF=1 is set in workers for symmetry only',
                  'baseline_off_cmd': 'cd /repo && /venv/bin/python -m pytest -ra -q -p no:cacheprovider --timeout=900 --continue-on-collection-errors',
                  'source_commits': [], 'add_only': True},
        'engines': [{'name': 'vlark', 'path': 'vlark/', 'serves_properties': [c['property_id'] for c in checks],
                     'kind_free_text': 'runtime monitoring harness: seeded workload generators, boundary recorder, reference-model oracles, sys.monitoring step budgets / reach / thread scheduler, fault injectors'}],
        'checks': checks,
        'not_applicable': na,
        'notes': 'Exit codes: 0 held, 1 violation (VIOLATION line + replay file), 3 inconclusive (never expected on the unchanged tree). Known findings: known_findings.json.',
    }
    with open(os.path.join(V, 'MANIFEST.json'), 'w') as f:
        json.dump(m, f, indent=1)
    print('checks', len(checks), 'not_applicable', len(na))

if __name__ == '__main__':
    main()

#!/bin/sh
# tools/selftest.sh [pattern]  - runs every selftest/mutations/<PROP>-*.diff (and seeded/*/patch.diff) against the
# quick tier of its property in a scratch worktree; prints CAUGHT/MISSED per patch.  Nothing touches /repo.
V=$(cd "$(dirname "$0")/.." && pwd)
pat=${1:-}
rc=0
for f in "$V"/selftest/mutations/*${pat}*.diff; do
  [ -f "$f" ] || continue
  b=$(basename "$f" .diff); P=${b%%-*}
  printf '%-60s ' "$b"
  "$V/tools/mutest.sh" "$f" -- "$P" 2>&1 | tail -1 | cut -c1-160 || rc=1
done
exit $rc

#!/bin/sh
# tools/mkmut.sh <name> <sed-expr> <file-in-repo>   -> selftest/mutations/<name>.diff (from a scratch worktree)
set -e
V=$(cd "$(dirname "$0")/.." && pwd)
D=$(mktemp -d /tmp/vlark-mk-XXXXXX)
git -C /repo worktree add -q --detach "$D/repo" HEAD
sed -i -e "$2" "$D/repo/$3"
git -C "$D/repo" diff > "$V/selftest/mutations/$1.diff"
git -C /repo worktree remove --force "$D/repo"; rm -rf "$D"
test -s "$V/selftest/mutations/$1.diff" && echo "wrote $1.diff" || { echo "EMPTY $1"; rm -f "$V/selftest/mutations/$1.diff"; exit 1; }

#!/venv/bin/python
"""print the replay files of a property in readable form"""
import json, sys, glob
sys.path.insert(0, '/verif'); sys.path.insert(0, '/repo')
from vlark.gram import print_grammar
prop = sys.argv[1]
seen = set()
for f in sorted(glob.glob('/verif/replays/%s/*.json' % prop)):
    d = json.load(open(f)); c = d['case']
    key = (d['mechanism'].split(':')[0], c.get('family'), json.dumps(c.get('grammar'), sort_keys=True))
    if key in seen and '-a' not in sys.argv: continue
    seen.add(key)
    print('=====', f.split('/')[-1], '| family', c.get('family'))
    if isinstance(c.get('grammar'), dict): print(print_grammar(c['grammar']))
    print({k: v for k, v in c.items() if k not in ('grammar',)})
    print(json.dumps(d['detail'])[:int(sys.argv[2]) if len(sys.argv) > 2 and sys.argv[2].isdigit() else 700])

"""Worker-side core: context object, canonicalisation, step-budget watchdog, wall guard.

A worker process imports lark from /repo's working tree (PYTHONPATH is set by the harness),
runs one batch of one property module and writes a JSON result file.  Nothing here decides a
verdict: drivers in props/cNN.py call ctx.judged()/ctx.violation().
"""
import sys, os, json, random, hashlib, signal, time, traceback

VERIF_DIR = os.path.dirname(os.path.dirname(os.path.abspath(__file__)))
REPO = os.environ.get('VLARK_REPO', '/repo')


def digest(obj):
    return hashlib.sha1(json.dumps(obj, sort_keys=True, default=repr).encode()).hexdigest()[:16]


class WallTimeout(BaseException):
    """wall-clock guard fired: the case is inconclusive, never a violation"""


class StepBudgetExceeded(BaseException):
    """logical step budget exceeded inside a lark API call"""


# --------------------------------------------------------------------------------------
# step budget (bounded progress) via sys.monitoring PY_START on lark code only

class StepCounter:
    def __init__(self):
        self.count = 0
        self.budget = None
        self.max_seen = {}
        self.enabled = False
        self.reach = {}          # code object -> label
        self.reached = {}        # label -> count (since reset_reach)
        self._lark_prefix = None

    def install(self):
        if self.enabled:
            return
        mon = sys.monitoring
        self.mon = mon
        self.TOOL = mon.PROFILER_ID
        try:
            mon.use_tool_id(self.TOOL, 'vlark')
        except ValueError:
            pass
        import lark
        self._lark_prefix = os.path.dirname(os.path.abspath(lark.__file__))
        mon.register_callback(self.TOOL, mon.events.PY_START, self._on_start)
        mon.set_events(self.TOOL, mon.events.PY_START)
        self.enabled = True

    def _on_start(self, code, off):
        if not code.co_filename.startswith(self._lark_prefix):
            return self.mon.DISABLE
        self.count += 1
        lab = self.reach.get(code)
        if lab is not None:
            self.reached[lab] = self.reached.get(lab, 0) + 1
        b = self.budget
        if b is not None and self.count > b:
            self.budget = None
            raise StepBudgetExceeded(b)

    def watch(self, label, func):
        """register a function (or property/method) as a reach anchor"""
        code = getattr(func, '__code__', None)
        if code is None and isinstance(func, property):
            code = func.fget.__code__
        if code is None and hasattr(func, '__func__'):
            code = func.__func__.__code__
        if code is not None:
            self.reach[code] = label
            self.reached.setdefault(label, 0)
            return True
        return False

    def run(self, op, budget, fn, *a, **kw):
        """run fn under a step budget; returns (result); raises StepBudgetExceeded"""
        self.count = 0
        self.budget = budget
        try:
            return fn(*a, **kw)
        finally:
            self.budget = None
            c = self.count
            if c > self.max_seen.get(op, 0):
                self.max_seen[op] = c


STEPS = StepCounter()


class wall_guard:
    """with wall_guard(seconds): ...  raises WallTimeout (BaseException) in the main thread"""
    def __init__(self, seconds):
        self.seconds = seconds

    def _handler(self, signum, frame):
        raise WallTimeout(self.seconds)

    def __enter__(self):
        self.old = signal.signal(signal.SIGALRM, self._handler)
        signal.setitimer(signal.ITIMER_REAL, self.seconds)
        return self

    def __exit__(self, *exc):
        signal.setitimer(signal.ITIMER_REAL, 0)
        signal.signal(signal.SIGALRM, self.old)
        return False


# --------------------------------------------------------------------------------------
# canonicalisation of lark results into plain data

def canon_token(t, pos=True):
    from lark import Token
    v = t.value
    if isinstance(v, bytes):
        v = 'b:' + v.decode('latin-1')
    elif not isinstance(v, str):
        v = repr(v)
    if pos:
        return ['T', t.type, v, t.start_pos, t.end_pos, t.line, t.column, t.end_line, t.end_column]
    return ['T', t.type, v]


class TooMany(Exception):
    """more derivations / expansions / nodes than the oracle is willing to enumerate: the case is not judged"""


class CanonTooBig(TooMany):
    """result tree beyond CANON_LIMIT nodes (explicit-ambiguity trees can be exponential): the case is not judged"""


CANON_LIMIT = 150_000
_canon_nodes = [0]


def canon_reset():
    _canon_nodes[0] = 0


def canon_tree(t, pos=False, meta=False):
    """canonical plain-data form of a lark result; raises CanonTooBig beyond CANON_LIMIT nodes"""
    _canon_nodes[0] = 0
    return _canon(t, pos, meta)


def _canon(t, pos=False, meta=False):
    from lark import Tree, Token
    _canon_nodes[0] += 1
    if _canon_nodes[0] > CANON_LIMIT:
        raise CanonTooBig()
    if isinstance(t, Tree):
        out = ['N', str(t.data), [_canon(c, pos, meta) for c in t.children]]
        if meta:
            m = t.meta
            if getattr(m, 'empty', True):
                out.append(None)
            else:
                out.append([m.start_pos, m.end_pos, m.line, m.column, m.end_line, m.end_column])
        return out
    if isinstance(t, Token):
        return canon_token(t, pos)
    if t is None:
        return None
    if isinstance(t, (list, tuple)):
        return ['L', [_canon(c, pos, meta) for c in t]]
    if isinstance(t, (str, int, float, bool)):
        return ['V', t]
    return ['V', repr(t)]


def canon_exc(e):
    from lark.exceptions import (UnexpectedInput, UnexpectedToken, UnexpectedCharacters,
                                 UnexpectedEOF, ParseError, GrammarError, LexError, LarkError)
    d = {'class': type(e).__name__, 'is_ui': isinstance(e, UnexpectedInput),
         'is_lark': isinstance(e, LarkError)}
    for k in ('pos_in_stream', 'line', 'column'):
        v = getattr(e, k, None)
        if isinstance(v, int):
            d[k] = v
    if isinstance(e, UnexpectedToken):
        tok = e.token
        d['token_type'] = getattr(tok, 'type', None)
        d['token'] = canon_token(tok) if hasattr(tok, 'start_pos') else repr(tok)
        d['expected'] = sorted(e.expected) if e.expected is not None else None
        # .accepts is computed lazily by trial feeds: run it under its own step budget (a diverging
        # conflict-resolved automaton would otherwise spin here, outside the budget of the API call)
        try:
            acc = STEPS.run('exc.accepts', 400_000, lambda: e.accepts) if STEPS.enabled else e.accepts
            d['accepts'] = sorted(acc) if acc is not None else None
        except StepBudgetExceeded:
            d['accepts'] = 'BUDGET'
        except Exception as x:          # pragma: no cover
            d['accepts'] = 'ERR ' + repr(x)
    elif isinstance(e, UnexpectedCharacters):
        d['allowed'] = sorted(e.allowed) if e.allowed is not None else None
        d['char'] = e.char if isinstance(e.char, str) else repr(e.char)
    elif isinstance(e, UnexpectedEOF):
        d['expected'] = sorted(getattr(x, 'name', str(x)) for x in e.expected) if e.expected is not None else None
    if not d['is_ui']:
        d['msg'] = str(e)[:300]
    return d


def outcome(fn, *a, pos=False, meta=False, **kw):
    """run fn; return ('ok', canon) or ('exc', canon_exc)"""
    try:
        r = fn(*a, **kw)
    except (WallTimeout, StepBudgetExceeded, KeyboardInterrupt):
        raise
    except RecursionError as e:
        return ['exc', {'class': 'RecursionError', 'is_ui': False, 'is_lark': False, 'msg': ''}]
    except Exception as e:
        return ['exc', canon_exc(e)]
    return ['ok', canon_tree(r, pos, meta)]


# --------------------------------------------------------------------------------------

class Ctx:
    MAX_SAMPLES = 6

    def __init__(self, prop, tier, seed, batch, nbatch):
        self.prop, self.tier, self.seed, self.batch, self.nbatch = prop, tier, seed, batch, nbatch
        self.rng = random.Random('%s/%s/%d/%d' % (prop, tier, seed, batch))
        self.counters = {}
        self.evaluations = 0
        self.nontrivial = set()
        self.samples = []
        self.violations = []
        self.inconclusive = []
        self.monitors = {}
        self.aux = {}            # key -> [digest, replay info]; compared across PYTHONHASHSEED runs of one batch
        self.t0 = time.time()
        self.deadline = None

    # -- accounting
    def count(self, name, n=1):
        self.counters[name] = self.counters.get(name, 0) + n

    def judged(self, key, nontrivial=False, features=()):
        """one oracle decision.  key: JSON-able identity of the case"""
        self.evaluations += 1
        if nontrivial:
            self.nontrivial.add(digest(key))
        for f in features:
            self.count('feature:' + f)

    def sample(self, obj, force=False):
        if force or len(self.samples) < self.MAX_SAMPLES:
            self.samples.append(obj)

    def monitor(self, name, n=1):
        self.monitors[name] = self.monitors.get(name, 0) + n

    def violation(self, mechanism, case, detail, finding=None):
        """case must be JSON-able and sufficient for props.cNN.replay(case)"""
        # records explained by a known-finding classifier are capped per finding, so that they can never
        # crowd an unexplained violation out of the report
        if finding:
            self.count('known:' + finding)
            if self.counters['known:' + finding] > 10:
                return
        else:
            self.count('violations_raw')
            if self.counters['violations_raw'] > 200:
                return
        self.violations.append({'mechanism': mechanism, 'case': case, 'detail': detail, 'finding': finding})

    def inconc(self, reason, case=None):
        if len(self.inconclusive) < 50:
            self.inconclusive.append({'reason': reason, 'case': case})
        self.count('inconclusive_cases')

    def time_left(self, share=1.0):
        """share < 1: has less than that share of the budget been used? (phases of one batch split the budget)"""
        if self.deadline is None:
            return True
        return time.time() < self.t0 + (self.deadline - self.t0) * share

    def result(self):
        return {'prop': self.prop, 'tier': self.tier, 'seed': self.seed, 'batch': self.batch,
                'counters': self.counters, 'evaluations': self.evaluations,
                'nontrivial': sorted(self.nontrivial), 'samples': self.samples,
                'violations': self.violations, 'inconclusive': self.inconclusive,
                'monitors': self.monitors, 'aux': self.aux, 'hashseed': os.environ.get('PYTHONHASHSEED'), 'max_steps': STEPS.max_seen,
                'anchors': dict(STEPS.reached), 'wall_s': time.time() - self.t0}


def load_prop(prop):
    import importlib
    return importlib.import_module('vlark.props.' + prop.lower())


def worker_main(argv):
    import argparse
    ap = argparse.ArgumentParser()
    ap.add_argument('prop')
    ap.add_argument('--tier', default='quick')
    ap.add_argument('--seed', type=int, default=0)
    ap.add_argument('--batch', type=int, default=0)
    ap.add_argument('--nbatch', type=int, default=1)
    ap.add_argument('--out', required=True)
    ap.add_argument('--replay', default=None)
    ap.add_argument('--budget-s', type=float, default=None)
    a = ap.parse_args(argv)
    sys.setrecursionlimit(20000)
    import logging
    import lark
    lark.logger.setLevel(logging.CRITICAL + 10)
    ctx = Ctx(a.prop, a.tier, a.seed, a.batch, a.nbatch)
    if a.budget_s:
        ctx.deadline = time.time() + a.budget_s
    mod = load_prop(a.prop)
    res = None
    try:
        if getattr(mod, 'USE_STEPS', True):
            STEPS.install()
        if hasattr(mod, 'setup'):
            mod.setup(ctx)
        if a.replay:
            with open(a.replay) as f:
                rp = json.load(f)
            mod.replay(ctx, rp['case'])
        else:
            if a.batch == 0 and hasattr(mod, 'selftest'):
                mod.selftest(ctx)
            mod.run_batch(ctx)
        res = ctx.result()
        res['status'] = 'done'
    except BaseException as e:
        res = ctx.result()
        res['status'] = 'crashed'
        res['crash'] = traceback.format_exc()[-4000:]
    with open(a.out, 'w') as f:
        json.dump(res, f, default=repr)
    return 0

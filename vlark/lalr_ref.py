"""R5: reference LALR(1).  Canonical LR(1) item sets (Knuth), merged by core, conflicts detected
on the merged table, shift preferred on shift/reduce, reduce/reduce resolved by a strict priority
maximum, otherwise reported.  Plus a plain LR driver.  Shares nothing with
lark.parsers.lalr_analysis (DeRemer-Pennello); the input is a plain list of productions."""

END = '$END'


class TooBig(Exception):
    pass


class Diverges(Exception):
    """the (conflict-resolved) automaton reduces forever without consuming the lookahead"""


class Prodn:
    __slots__ = ('idx', 'lhs', 'rhs', 'prio', 'tag')

    def __init__(self, idx, lhs, rhs, prio=0, tag=None):
        self.idx, self.lhs, self.rhs, self.prio, self.tag = idx, lhs, tuple(rhs), prio or 0, tag

    def __repr__(self):
        return '%s -> %s' % (self.lhs, ' '.join(self.rhs) or 'ε')


class RefLALR:
    """prods: list of (lhs, rhs names, priority, tag); non-terminals = names that occur as a lhs.
    starts: list of start symbol names."""

    MAX_REDUCES = 5000      # consecutive reductions on one lookahead; far beyond any finite chain of these automata

    def __init__(self, prods, starts, cap=3000, terminals=()):
        self.starts = list(starts)
        self.prods = []
        for s in self.starts:
            self.prods.append(Prodn(len(self.prods), '$root_' + s, (s,), 0, None))
        self.nroot = len(self.prods)
        for lhs, rhs, prio, tag in prods:
            self.prods.append(Prodn(len(self.prods), lhs, rhs, prio, tag))
        self.nts = {p.lhs for p in self.prods}
        self.by_lhs = {}
        for p in self.prods:
            self.by_lhs.setdefault(p.lhs, []).append(p)
        for p in self.prods:
            for s in p.rhs:
                if s not in self.nts and not (s in terminals or s.isupper() or s == END):
                    # a lower-case name without productions: an undefined rule
                    raise ValueError('undefined non-terminal %r' % s)
        self.terms = sorted({s for p in self.prods for s in p.rhs if s not in self.nts})
        self._first()
        self._lr1(cap)
        self._merge()
        self._actions()

    # ---- FIRST / nullable
    def _first(self):
        self.nullable = set()
        self.first = {n: set() for n in self.nts}
        ch = True
        while ch:
            ch = False
            for p in self.prods:
                allnull = True
                for s in p.rhs:
                    if s in self.nts:
                        add = self.first[s] - self.first[p.lhs]
                        if add:
                            self.first[p.lhs] |= add
                            ch = True
                        if s not in self.nullable:
                            allnull = False
                            break
                    else:
                        if s not in self.first[p.lhs]:
                            self.first[p.lhs].add(s)
                            ch = True
                        allnull = False
                        break
                if allnull and p.lhs not in self.nullable:
                    self.nullable.add(p.lhs)
                    ch = True

    def first_of(self, syms, la):
        out = set()
        for s in syms:
            if s in self.nts:
                out |= self.first[s]
                if s not in self.nullable:
                    return out
            else:
                out.add(s)
                return out
        out.add(la)
        return out

    def follow(self):
        """plain FOLLOW sets (for the LALR != SLR non-triviality rule)"""
        fol = {n: set() for n in self.nts}
        for s in self.starts:
            fol['$root_' + s].add(END)
        ch = True
        while ch:
            ch = False
            for p in self.prods:
                for i, s in enumerate(p.rhs):
                    if s in self.nts:
                        f = set()
                        rest_null = True
                        for t in p.rhs[i + 1:]:
                            if t in self.nts:
                                f |= self.first[t]
                                if t not in self.nullable:
                                    rest_null = False
                                    break
                            else:
                                f.add(t)
                                rest_null = False
                                break
                        if rest_null:
                            f |= fol[p.lhs]
                        if not f <= fol[s]:
                            fol[s] |= f
                            ch = True
        return fol

    # ---- canonical LR(1)
    def _closure(self, kernel):
        items = set(kernel)
        st = list(kernel)
        while st:
            pi, d, la = st.pop()
            rhs = self.prods[pi].rhs
            if d < len(rhs) and rhs[d] in self.nts:
                las = self.first_of(rhs[d + 1:], la)
                for q in self.by_lhs[rhs[d]]:
                    for b in las:
                        it = (q.idx, 0, b)
                        if it not in items:
                            items.add(it)
                            st.append(it)
        return frozenset(items)

    def _lr1(self, cap):
        self.lr1_states = []          # closures
        self.lr1_goto = []            # dict sym -> state index
        index = {}
        self.lr1_start = {}
        work = []
        for i, s in enumerate(self.starts):
            k = frozenset({(i, 0, END)})
            if k not in index:
                index[k] = len(self.lr1_states)
                self.lr1_states.append(self._closure(k))
                self.lr1_goto.append({})
                work.append(index[k])
            self.lr1_start[s] = index[k]
        while work:
            si = work.pop()
            by_sym = {}
            for (pi, d, la) in self.lr1_states[si]:
                rhs = self.prods[pi].rhs
                if d < len(rhs):
                    by_sym.setdefault(rhs[d], set()).add((pi, d + 1, la))
            for sym, kern in by_sym.items():
                k = frozenset(kern)
                ti = index.get(k)
                if ti is None:
                    if len(self.lr1_states) >= cap:
                        raise TooBig(len(self.lr1_states))
                    ti = index[k] = len(self.lr1_states)
                    self.lr1_states.append(self._closure(k))
                    self.lr1_goto.append({})
                    work.append(ti)
                self.lr1_goto[si][sym] = ti

    # ---- merge by core
    def _merge(self):
        core_index = {}
        self.core_of = []
        self.cores = []
        for si, items in enumerate(self.lr1_states):
            core = frozenset((pi, d) for (pi, d, la) in items)
            ci = core_index.get(core)
            if ci is None:
                ci = core_index[core] = len(self.cores)
                self.cores.append(core)
            self.core_of.append(ci)
        n = len(self.cores)
        self.la = [dict() for _ in range(n)]        # (pi, d) -> set of lookaheads
        self.goto = [dict() for _ in range(n)]
        for si, items in enumerate(self.lr1_states):
            ci = self.core_of[si]
            for (pi, d, la) in items:
                self.la[ci].setdefault((pi, d), set()).add(la)
            for sym, ti in self.lr1_goto[si].items():
                t = self.core_of[ti]
                assert self.goto[ci].setdefault(sym, t) == t
        self.start_state = {s: self.core_of[i] for s, i in self.lr1_start.items()}
        self.end_state = {s: self.goto[self.start_state[s]].get(s) for s in self.starts}
        self.end_states = {e for e in self.end_state.values() if e is not None}

    # ---- actions and conflicts
    def _actions(self):
        self.rows = []
        self.sr = []            # (state, terminal, production)
        self.rr_resolved = []   # (state, terminal, winner, losers)
        self.rr_unresolved = []
        for ci, core in enumerate(self.cores):
            row = {}
            for sym, t in self.goto[ci].items():
                if sym not in self.nts:
                    row[sym] = ('s', t)
            red = {}
            for (pi, d) in core:
                p = self.prods[pi]
                if d == len(p.rhs) and pi >= self.nroot:
                    for la in self.la[ci][(pi, d)]:
                        red.setdefault(la, set()).add(pi)
            for la, ps in red.items():
                if len(ps) > 1:
                    ranked = sorted(ps, key=lambda pi: -self.prods[pi].prio)
                    if self.prods[ranked[0]].prio > self.prods[ranked[1]].prio:
                        self.rr_resolved.append((ci, la, ranked[0], ranked[1:]))
                        ps = {ranked[0]}
                    else:
                        self.rr_unresolved.append((ci, la, sorted(ps)))
                        continue
                pi, = ps
                if la in row:
                    self.sr.append((ci, la, pi))
                else:
                    row[la] = ('r', pi)
            self.rows.append(row)

    @property
    def has_rr(self):
        return bool(self.rr_unresolved)

    def slr_differs(self):
        """some reduce whose LALR lookahead set is a strict subset of FOLLOW(lhs)"""
        fol = self.follow()
        for ci, core in enumerate(self.cores):
            for (pi, d) in core:
                p = self.prods[pi]
                if d == len(p.rhs) and pi >= self.nroot and self.la[ci][(pi, d)] < fol[p.lhs]:
                    return True
        return False

    # ---- driver
    def drive(self, start, toks):
        """toks: list of terminal names (without $END).
        -> ('accept',) | ('error', index of offending token (len(toks) for $END), state, stack)"""
        stack = [self.start_state[start]]
        for i, t in enumerate(list(toks) + [END]):
            nred = 0
            while True:
                nred += 1
                if nred > self.MAX_REDUCES:
                    return ('loop', i)
                act = self.rows[stack[-1]].get(t)
                if act is None:
                    return ('error', i, stack[-1], stack)
                if act[0] == 's':
                    stack.append(act[1])
                    break
                p = self.prods[act[1]]
                if p.rhs:
                    del stack[-len(p.rhs):]
                stack.append(self.goto[stack[-1]][p.lhs])
                if t == END and stack[-1] == self.end_state.get(start):
                    return ('accept',)
        return ('error', len(toks), stack[-1], stack)

    def prefix_diverges(self, start, toks):
        """does the automaton reduce forever while consuming this token prefix (no $END)?"""
        stack = [self.start_state[start]]
        for t in toks:
            try:
                stack = self.feed(stack, t)
            except Diverges:
                return True
            if stack is None:
                return False
        return False

    def feed(self, stack, t):
        """feed one terminal on a copy of stack -> new stack | None"""
        stack = list(stack)
        nred = 0
        while True:
            nred += 1
            if nred > self.MAX_REDUCES:
                raise Diverges(t)
            act = self.rows[stack[-1]].get(t)
            if act is None:
                return None
            if act[0] == 's':
                stack.append(act[1])
                return stack
            p = self.prods[act[1]]
            if p.rhs:
                del stack[-len(p.rhs):]
            stack.append(self.goto[stack[-1]][p.lhs])
            if t == END and stack[-1] in self.end_states:
                return stack

    def row_terminals(self, ci):
        return set(self.rows[ci])

    def accepts(self, stack):
        out = set()
        for t in self.rows[stack[-1]]:
            try:
                if self.feed(stack, t) is not None:
                    out.add(t)
            except Diverges:
                raise
        return out

    def shortest_prefixes(self, start, limit=400):
        """BFS over driver configurations: for every automaton state reachable as the top of the
        stack after feeding terminals, one shortest terminal prefix.  -> {state: (prefix, stack)}"""
        s0 = [self.start_state[start]]
        seen = {s0[-1]: ((), s0)}
        frontier = [((), s0)]
        while frontier and len(seen) < limit:
            nxt = []
            for pre, st in frontier:
                for t in sorted(self.rows[st[-1]]):
                    if t == END:
                        continue
                    try:
                        st2 = self.feed(st, t)
                    except Diverges:
                        continue
                    if st2 is None or st2[-1] in seen:
                        continue
                    seen[st2[-1]] = (pre + (t,), st2)
                    nxt.append((pre + (t,), st2))
            frontier = nxt
        return seen


def from_lark_rules(rules, starts, cap=3000):
    prods = []
    for r in rules:
        prods.append((r.origin.name, [s.name for s in r.expansion], (r.options.priority if r.options else None) or 0, r))
    # terminal-ness is taken from the symbols, not guessed from the spelling ("__", m__NAME are terminals)
    return RefLALR(prods, starts, cap, terminals={s.name for r in rules for s in r.expansion if s.is_term})

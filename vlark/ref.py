"""Reference models over RefGrammar (vlark.gram): R1 regex helpers, R2 chart / derivation
enumerator / validator / viable prefixes, R3 shaping, R4 reference lexer, R6 positions.
Naive fixpoints over tiny inputs; independent of lark's algorithms."""
import re, itertools
from .gram import RefGrammar, count_kept


from .core import TooMany       # raised by the enumerators here and by the canonicaliser's node limit


# ------------------------------------------------------------------ R1

def match_lengths(rx, text, i, mode):
    """end offsets of matches of compiled regex rx at i.
    mode 'pref': Python's preferred match only; 'all': every length (regular-language reading);
    'trunc': lengths reachable by truncating the preferred match (what complete_lex tries)"""
    m = rx.match(text, i)
    if mode == 'pref':
        return {m.end()} if m and m.end() > i else set()
    if mode == 'all':
        return {j for j in range(i + 1, len(text) + 1) if rx.fullmatch(text, i, j)}
    if mode == 'trunc':
        if not m or m.end() == i:
            return set()
        out = {m.end()}
        s = m.group(0)
        for j in range(1, len(s)):
            m2 = rx.match(s[:-j])
            if m2 and m2.end() > 0:
                out.add(i + m2.end())
        return out
    raise ValueError(mode)


def line_col(text, pos):
    """R6: 1-based line/column of offset pos"""
    nl = '\n' if isinstance(text, str) else b'\n'
    line = text.count(nl, 0, pos) + 1
    last = text.rfind(nl, 0, pos)
    return line, pos - last


# ------------------------------------------------------------------ input models

class TokenInput:
    """tokens: list of (tid, value, start, end)"""
    def __init__(self, toks):
        self.toks = toks
        self.n = len(toks)

    def tmatch(self, tid, p):
        if p < self.n and self.toks[p][0] == tid:
            return ((p, p + 1),)
        return ()

    def final_ok(self, j):
        return j == self.n

    def leaf_value(self, s, j):
        return self.toks[s][1]

    def leaf_span(self, s, j):
        return self.toks[s][2], self.toks[s][3]


class CharInput:
    """scannerless reading: terminals are regular languages over the text; ignored terminals may be
    skipped before any terminal and at the end"""
    def __init__(self, rg, text, term_mode='all', ign_mode='all', gflags=0):
        self.text = text
        self.n = len(text)
        self.rg = rg
        self.term_mode = term_mode
        self._m = {}
        ig = {i: set() for i in range(self.n + 1)}
        for tid in rg.ignore:
            rx = rg.terms[tid].compiled(gflags)
            for i in range(self.n):
                ig[i] |= match_lengths(rx, text, i, ign_mode)
        self.skip = {}
        for i in range(self.n + 1):
            seen = {i}
            st = [i]
            while st:
                p = st.pop()
                for q in ig[p]:
                    if q not in seen:
                        seen.add(q)
                        st.append(q)
            self.skip[i] = seen
        self.gflags = gflags

    def tmatch(self, tid, p):
        key = (tid, p)
        r = self._m.get(key)
        if r is None:
            rx = self.rg.terms[tid].compiled(self.gflags)
            out = set()
            for s in self.skip[p]:
                for j in match_lengths(rx, self.text, s, self.term_mode):
                    out.add((s, j))
            r = self._m[key] = tuple(sorted(out))
        return r

    def final_ok(self, j):
        return self.n in self.skip[j]

    def leaf_value(self, s, j):
        return self.text[s:j]

    def leaf_span(self, s, j):
        return s, j


# ------------------------------------------------------------------ R2a chart

class Chart:
    def __init__(self, rg, inp):
        self.rg, self.inp = rg, inp
        n = inp.n
        self.n = n
        self.span = {name: [set() for _ in range(n + 1)] for name in rg.nts}
        prods = list(rg.productions())
        changed = True
        while changed:
            changed = False
            for p in prods:
                tgt = self.span[p.lhs]
                for i in range(n + 1):
                    pos = {i}
                    for s in p.rhs:
                        npos = set()
                        if s[0] == 'N':
                            sp = self.span[s[1]]
                            for q in pos:
                                npos |= sp[q]
                        else:
                            for q in pos:
                                for (_, j) in inp.tmatch(s[1], q):
                                    npos.add(j)
                        pos = npos
                        if not pos:
                            break
                    if pos and not pos <= tgt[i]:
                        tgt[i] |= pos
                        changed = True

    def accepts(self, start='start'):
        return any(self.inp.final_ok(j) for j in self.span[start][0])

    def ends(self, start='start'):
        return [j for j in self.span[start][0] if self.inp.final_ok(j)]

    # -- R2c derivation enumerator (on-path guard; exact for acyclic grammars)
    def derivations(self, start='start', cap=300):
        self._cap = cap
        self._count = 0
        self._memo = {} if not self.rg.is_cyclic() else None
        out = []
        for j in self.ends(start):
            out.extend(self._enum(start, 0, j, frozenset()))
            if len(out) > cap:
                raise TooMany()
        return out

    def _enum(self, name, i, j, path):
        key = (name, i, j)
        if j not in self.span[name][i]:
            return []
        if self._memo is not None:
            # acyclic grammar: no node can contain itself over the same span, so no guard is
            # needed and memoisation is exact
            if key in self._memo:
                return self._memo[key]
            path2 = path
        else:
            if key in path:
                return []
            path2 = path | {key}
        res = []
        for p in self.rg.nts[name].prods:
            for ch in self._seqs(p.rhs, 0, i, j, path2):
                res.append(('n', name, p.idx, ch))
                if len(res) > self._cap:
                    raise TooMany()
        if self._memo is not None:
            self._memo[key] = res
        return res

    def _feasible(self, rhs, k, p, j):
        """can rhs[k:] span exactly (p, j)?  (chart lookups only)"""
        if k == len(rhs):
            return p == j
        s = rhs[k]
        if s[0] == 'T':
            return any(q <= j and self._feasible(rhs, k + 1, q, j) for (_, q) in self.inp.tmatch(s[1], p))
        return any(q <= j and self._feasible(rhs, k + 1, q, j) for q in self.span[s[1]][p])

    def _seqs(self, rhs, k, p, j, path):
        if k == len(rhs):
            if p == j:
                yield ()
            return
        s = rhs[k]
        if s[0] == 'T':
            for (st, q) in self.inp.tmatch(s[1], p):
                if q <= j:
                    for rest in self._seqs(rhs, k + 1, q, j, path):
                        yield (('t', s[1], s[2], st, q),) + rest
        else:
            for q in sorted(self.span[s[1]][p]):
                # only descend into sub-derivations that can be completed by the rest of the
                # alternative: the recursion then follows real derivations only
                if q <= j and self._feasible(rhs, k + 1, q, j):
                    subs = self._enum(s[1], p, q, path)
                    if subs:
                        rests = list(self._seqs(rhs, k + 1, q, j, path))
                        for sub in subs:
                            for rest in rests:
                                yield (sub,) + rest


# ------------------------------------------------------------------ R3 shaping

class Shaper:
    def __init__(self, rg, inp, keep_all_tokens=False, maybe_placeholders=True, positions=False, spans=False):
        self.rg, self.inp = rg, inp
        self.keep_all, self.ph, self.positions = keep_all_tokens, maybe_placeholders, positions
        self.spans = spans       # append [start, end] of everything the node's rule matched (filtered tokens included)
        self.fired = set()       # which shaping rules were applied (for the evidence)

    def span_of(self, d, token_collapse=False):
        """(start, end) offsets of the first / last token below derivation node d, filtered ones included.
        token_collapse: model of finding F-C06-1 - a ?-rule that is replaced by a single *token* (or a single None
        placeholder) cannot carry the filtered tokens it matched next to it, so only that token's own span (nothing)
        reaches the parent."""
        if d[0] == 't':
            return self.inp.leaf_span(d[3], d[4])
        if token_collapse:
            nt = self.rg.nts[d[1]]
            if nt.kind == 'rule' and '?' in nt.mods and not nt.prods[d[2]].alias and not nt.display.startswith('_'):
                saved, self.spans = self.spans, False
                try:
                    kids = self.contrib(d, False)
                finally:
                    self.spans = saved
                if len(kids) == 1 and kids[0] is not None and kids[0][0] == 'T':
                    leaves = []
                    self._kept_leaves(d, nt.keep, leaves)
                    if len(leaves) == 1:
                        return self.inp.leaf_span(leaves[0][3], leaves[0][4])
                if kids == [None]:
                    return None              # a lone None placeholder: nothing to hang the span on either
        lo = hi = None
        for c in d[3]:
            sp = self.span_of(c, token_collapse)
            if sp is not None:
                lo = sp[0] if lo is None else min(lo, sp[0])
                hi = sp[1] if hi is None else max(hi, sp[1])
        return None if lo is None else (lo, hi)

    def _kept_leaves(self, d, keep, out):
        if d[0] == 't':
            if not self.filtered(d, keep):
                out.append(d)
            return
        nt = self.rg.nts[d[1]]
        k = nt.keep if nt.kind == 'rule' else keep
        for c in d[3]:
            self._kept_leaves(c, k, out)

    def tok(self, leaf):
        _, tid, anon, s, j = leaf
        T = self.rg.terms[tid]
        val = self.inp.leaf_value(s, j)
        if isinstance(val, bytes):
            val = 'b:' + val.decode('latin-1')
        out = ['T', T.name, val]
        if self.positions:
            a, b = self.inp.leaf_span(s, j)
            out += [a, b]
        return out

    def filtered(self, leaf, keep):
        _, tid, anon, s, j = leaf
        if keep or self.keep_all:
            return False
        T = self.rg.terms[tid]
        if anon:
            return T.pat[0] == 's'
        return T.name.startswith('_')

    def contrib(self, d, keep):
        """list of children this derivation node contributes to its parent"""
        if d[0] == 't':
            if self.filtered(d, keep):
                self.fired.add('token-filtered')
                return []
            if d[2] and self.rg.terms[d[1]].pat[0] == 's' or (self.rg.terms[d[1]].name or '').startswith('_'):
                self.fired.add('token-kept-by-bang-or-keep_all')
            return [self.tok(d)]
        _, name, pidx, ch = d
        nt = self.rg.nts[name]
        prod = nt.prods[pidx]
        if nt.kind == 'helper':
            if prod.maybe is not None and not ch:
                if self.ph:
                    k = count_kept(prod.maybe, keep or self.keep_all, self.rg)
                    if k:
                        self.fired.add('none-placeholder')
                    return [None] * k
                return []
            out = []
            for c in ch:
                out.extend(self.contrib(c, keep))
            return out
        k = nt.keep
        kids = []
        for c in ch:
            kids.extend(self.contrib(c, k))
        if nt.display.startswith('_'):
            self.fired.add('rule-inlined')
            return kids
        if '?' in nt.mods and len(kids) == 1 and not prod.alias:
            self.fired.add('expand1')
            if self.spans and kids[0] is not None and kids[0][0] == 'N' and kids[0][3] is None:
                # the node now stands for this rule too: a node that matched nothing itself takes the span of the
                # innermost ?-rule around it that did match something
                sp = self.span_of(d, self.spans == 'token-collapse')
                if sp:
                    self.fired.add('empty-node-takes-span-of-inlined-parent')
                    kids[0][3] = list(sp)
            return kids
        if prod.alias:
            self.fired.add('alias')
        if nt.display != nt.name:
            self.fired.add('template-instance')
        if self.spans:
            sp = self.span_of(d, self.spans == 'token-collapse')
            return [['N', prod.alias or nt.display, kids, list(sp) if sp else None]]
        return [['N', prod.alias or nt.display, kids]]

    def shape(self, d):
        r = self.contrib(d, False)
        # the start rule is never inlined away into "nothing": lark returns the single child for
        # ?start, and a Tree otherwise
        if len(r) == 1:
            return r[0]
        return ['N?', r]


def freeze(x):
    if isinstance(x, list):
        return tuple(freeze(i) for i in x)
    return x


def strip_types(t):
    """drop token types that the reference does not predict (anonymous tokens: type None)"""
    return t


def tree_match(ref, got):
    """compare reference-shaped tree with canonical lark tree; reference token type None = wildcard"""
    if ref is None or got is None:
        return ref is None and got is None
    if ref[0] != got[0]:
        return False
    if ref[0] == 'T':
        if ref[1] is not None and ref[1] != got[1]:
            return False
        return list(ref[2:]) == list(got[2:len(ref)])
    if ref[0] == 'N':
        return ref[1] == got[1] and len(ref[2]) == len(got[2]) and all(tree_match(a, b) for a, b in zip(ref[2], got[2]))
    return ref == got


def erase_anon_types(got, named):
    """canonical lark tree -> same with token types not in `named` replaced by None, so that sets of
    trees can be compared by equality"""
    if got is None:
        return None
    if got[0] == 'T':
        return ('T', got[1] if got[1] in named else None) + tuple(got[2:])
    if got[0] == 'N':
        return ('N', got[1], tuple(erase_anon_types(c, named) for c in got[2])) + tuple(freeze(x) for x in got[3:])
    return freeze(got)


def expand_ambig(t, cap=2000):
    """all trees denoted by a canonical tree with _ambig nodes"""
    if t is None or t[0] != 'N':
        return [t]
    if t[1] == '_ambig':
        out = []
        for c in t[2]:
            out.extend(expand_ambig(c, cap))
            if len(out) > cap:
                raise TooMany()
        return out
    lists = [expand_ambig(c, cap) for c in t[2]]
    n = 1
    for l in lists:
        n *= len(l)
        if n > cap:
            raise TooMany()
    return [['N', t[1], list(p)] + list(t[3:]) for p in itertools.product(*lists)]


# ------------------------------------------------------------------ priorities (R2e)

def deriv_priority(rg, d, with_terms=False):
    if d[0] == 't':
        if with_terms:
            return rg.terms[d[1]].prio or 0
        return 0
    _, name, pidx, ch = d
    nt = rg.nts[name]
    p = (nt.prio or 0) if nt.kind == 'rule' else 0
    return p + sum(deriv_priority(rg, c, with_terms) for c in ch)


# ------------------------------------------------------------------ R4 reference lexer

UNBOUNDED = 1 << 32


def max_width(src, flags=0):
    """longest theoretical match of a regexp (docs/grammar.md); every unbounded regexp has the same,
    "infinite", width"""
    import re._parser as sre_parse
    w = sre_parse.parse(src, flags).getwidth()[1]
    return min(int(w), UNBOUNDED)


def lexer_order(terms, gflags=0):
    """documented order: priority desc, max width desc, pattern length desc, name"""
    def key(T):
        if T.pat[0] == 's':
            w = len(T.pat[1])
        else:
            w = max_width(T.pat[1], T.flags(gflags))
        return (-(T.prio or 0), -w, -len(T.pat[1]), T.lexname)
    return sorted(terms, key=key)


class RefLexer:
    """terms: list of Term with attribute lexname (token type as lark names it).
    Written from docs/grammar.md: at every position the first terminal in the documented order that
    matches wins; text matched by a regexp terminal that is exactly a same-priority string terminal
    is reported as that string terminal."""
    def __init__(self, terms, ignore_names, gflags=0):
        self.order = lexer_order(terms, gflags)
        self.ignore = set(ignore_names)
        self.gflags = gflags
        self.strs = [T for T in self.order if T.pat[0] == 's']
        self.keywords = {}      # regexp terminal -> string terminals it can spell (same priority)
        for T in self.order:
            if T.pat[0] == 'x':
                ks = []
                for S in self.strs:
                    if (S.prio or 0) != (T.prio or 0):
                        continue
                    # the statement has no "which the regexp can spell" condition: a case-insensitive keyword written
                    # "SELECT"i is that keyword also when /[a-z]+/ matched "select".  (Whether the text IS the string
                    # terminal is decided on the matched text, below.)
                    ks.append(S)
                self.keywords[T.lexname] = ks

    def lex(self, text, allowed=None, keep_ignored=False):
        """-> (tokens [(name, value, start, end)], fail_pos|None)"""
        pos = 0
        out = []
        n = len(text)
        while pos < n:
            hit = None
            for T in self.order:
                if allowed is not None and T.lexname not in allowed and T.lexname not in self.ignore:
                    continue
                m = T.compiled(self.gflags).match(text, pos)
                if m and m.end() > pos:
                    hit = (T, m.end())
                    break
            if hit is None:
                return out, pos
            T, e = hit
            val = text[pos:e]
            if T.pat[0] == 'x':
                for S in self.keywords[T.lexname]:
                    if allowed is not None and S.lexname not in allowed and S.lexname not in self.ignore:
                        continue
                    if S.compiled(self.gflags).fullmatch(val):
                        T = S
                        break
            if keep_ignored or T.lexname not in self.ignore:
                out.append((T.lexname, val, pos, e))
            pos = e
        return out, None


# ------------------------------------------------------------------ R2b second recogniser

def recognise2(rg, inp, start='start'):
    """independent membership test: Kleene iteration of  Ends[(sym, i)] = positions reachable by
    deriving sym from i  (per start position, set-of-ends formulation; shares no code with Chart)"""
    n = inp.n
    E = {}
    names = list(rg.nts)

    def ends_of(sym, i):
        if sym[0] == 'T':
            return {j for (_, j) in inp.tmatch(sym[1], i)}
        return E.get((sym[1], i), set())
    changed = True
    while changed:
        changed = False
        for name in names:
            for i in range(n + 1):
                acc = set()
                for p in rg.nts[name].prods:
                    cur = {i}
                    for s in p.rhs:
                        nxt = set()
                        for q in cur:
                            nxt |= ends_of(s, q)
                        cur = nxt
                        if not cur:
                            break
                    acc |= cur
                old = E.get((name, i))
                if old is None:
                    if acc:
                        E[(name, i)] = acc
                        changed = True
                elif not acc <= old:
                    old |= acc
                    changed = True
    return any(inp.final_ok(j) for j in E.get((start, 0), ()))


# ------------------------------------------------------------------ R2d viable prefixes / next terminals

class Viable:
    """Which prefixes of the input can be extended to a sentence, and which terminals may come
    next.  Top-down closure over the chart: Need(X, i) = "some sentence has the consumed input up
    to i followed by an X"; only productions whose symbols are all productive take part (a prefix
    that needs a useless symbol cannot be completed).  Positions are those of the input model
    (token indexes, or character offsets of token ends for CharInput)."""

    def __init__(self, rg, inp, chart, start='start', productive_only=True):
        self.rg, self.inp, self.chart, self.start = rg, inp, chart, start
        prod = rg.productive() if productive_only else set(rg.nts)
        self.exp = {}            # position -> set of tids expected there
        self.reached = set()     # positions at which some viable item's dot sits
        need = {(start, 0)}
        work = [(start, 0)]
        while work:
            X, i = work.pop()
            for p in rg.nts[X].prods:
                if any(s[0] == 'N' and s[1] not in prod for s in p.rhs):
                    continue
                pos = {i}
                for s in p.rhs:
                    self.reached |= pos
                    npos = set()
                    if s[0] == 'N':
                        sp = chart.span[s[1]]
                        for q in pos:
                            if (s[1], q) not in need:
                                need.add((s[1], q))
                                work.append((s[1], q))
                            npos |= sp[q]
                    else:
                        for q in pos:
                            self.exp.setdefault(q, set()).add(s[1])
                            for (_, j) in inp.tmatch(s[1], q):
                                npos.add(j)
                    pos = npos
                    if not pos:
                        break
                self.reached |= pos
        if start not in prod:
            self.reached = {0}
            self.exp = {}
        self.complete = set(chart.span[start][0]) if start in prod else set()

    # -- token level
    def longest_viable(self):
        return max(self.reached) if self.reached else 0

    def next_terms(self, k):
        return set(self.exp.get(k, ()))

    # -- scannerless (CharInput): character offsets that stay alive through ignored text
    def live_chars(self):
        live = set(self.reached)
        for q in self.reached:
            if self.exp.get(q) or q in self.complete:
                live |= self.inp.skip[q]
        return live

    def allowed_at(self, m):
        out = set()
        for q in self.reached:
            if m in self.inp.skip[q]:
                out |= self.exp.get(q, set())
        return out

"""G1: grammar AST (plain JSON data), printer to lark EBNF text, and the *reference* expansion
to an annotated BNF that the reference models interpret.  The expansion here is deliberately
naive and shares nothing with lark.load_grammar.

AST
  G = {'rules':[R], 'terms':[T], 'ignore':[name], 'start':[name]}
  R = {'name', 'mods' ('', '?', '!', '?!'), 'prio' int|None, 'params':[..], 'alts':[A]}
  A = {'items':[I], 'alias': str|None}
  T = {'name', 'prio' int|None, 'pat': ['s', text, flags] | ['x', regex, flags]}
  I = ['r', name] | ['t', name] | ['s', text, flags] | ['x', regex, flags]
    | ['g', [A]] | ['m', [A]] | ['q', I, op, lo, hi] (op in ? * + ~) | ['c', tmpl, [I]] | ['p', name]
"""
import json, re


# ------------------------------------------------------------------ printing

def esc_str(s):
    return '"' + s.replace('\\', '\\\\').replace('"', '\\"').replace('\n', '\\n').replace('\t', '\\t') + '"'


def print_pat(p):
    if p[0] == 's':
        return esc_str(p[1]) + p[2]
    return '/' + p[1].replace('/', '\\/') + '/' + p[2]


def print_item(it):
    k = it[0]
    if k in ('r', 't', 'p'):
        return it[1]
    if k in ('s', 'x'):
        return print_pat(it)
    if k == 'g':
        return '(' + print_alts(it[1]) + ')'
    if k == 'm':
        return '[' + print_alts(it[1]) + ']'
    if k == 'q':
        inner = print_item(it[1])
        op = it[2]
        if op == '~':
            return inner + ('~%d' % it[3] if it[3] == it[4] and not (len(it) > 5 and it[5]) else '~%d..%d' % (it[3], it[4]))
        return inner + op
    if k == 'c':
        return '%s{%s}' % (it[1], ', '.join(print_item(a) for a in it[2]))
    raise ValueError(it)


def print_alt(a):
    s = ' '.join(print_item(i) for i in a['items'])
    if a.get('alias'):
        s += ' -> ' + a['alias']
    return s


def print_alts(alts, sep=' | '):
    return sep.join(print_alt(a) for a in alts)


def print_grammar(G):
    out = []
    for r in G['rules']:
        head = r.get('mods', '') + r['name']
        if r.get('params'):
            head += '{' + ', '.join(r['params']) + '}'
        if r.get('prio') is not None:
            head += '.%d' % r['prio']
        out.append('%s: %s' % (head, print_alts(r['alts'], '\n    | ')))
    for t in G.get('terms', []):
        head = t['name'] + ('.%d' % t['prio'] if t.get('prio') is not None else '')
        if 'text' in t:
            out.append('%s: %s' % (head, t['text']))
        else:
            out.append('%s: %s' % (head, print_pat(t['pat'])))
    for i in G.get('ignore', []):
        out.append('%%ignore %s' % i)
    for x in G.get('extra', []):
        out.append(x)
    return '\n'.join(out) + '\n'


# ------------------------------------------------------------------ reference BNF

class Term:
    __slots__ = ('tid', 'name', 'pat', 'prio', 'named', '_re', 'lexname')

    def __init__(self, tid, name, pat, prio, named):
        self.tid, self.name, self.pat, self.prio, self.named = tid, name, pat, prio, named
        self._re = None

    def regex_src(self):
        if self.pat[0] == 's':
            return re.escape(self.pat[1])
        return self.pat[1]

    def flags(self, gflags=0):
        f = gflags
        for c in self.pat[2]:
            f |= {'i': re.I, 'm': re.M, 's': re.S, 'l': re.L, 'u': re.U, 'x': re.X}[c]
        return f

    def compiled(self, gflags=0):
        if self._re is None or self._re[0] != gflags:
            self._re = (gflags, re.compile(self.regex_src(), self.flags(gflags)))
        return self._re[1]


class Prod:
    __slots__ = ('lhs', 'rhs', 'alias', 'maybe', 'idx', 'rule')

    def __init__(self, lhs, rhs, alias=None, maybe=None, idx=0):
        self.lhs, self.rhs, self.alias, self.maybe, self.idx = lhs, rhs, alias, maybe, idx


class NT:
    __slots__ = ('name', 'kind', 'display', 'mods', 'prio', 'keep', 'prods', 'owner')

    def __init__(self, name, kind, display, mods='', prio=None, keep=False, owner=None):
        self.name, self.kind, self.display, self.mods, self.prio, self.keep = name, kind, display, mods, prio, keep
        self.prods = []
        self.owner = owner     # user rule this helper was written in


class RefGrammar:
    """annotated BNF.  symbols: ('N', name) | ('T', tid, anon_occurrence)"""

    def __init__(self, G, small_rep_limit=12):
        self.G = G
        self.nts = {}
        self.order = []
        self.terms = {}
        self.term_by_name = {}
        self.term_by_pat = {}
        self.start = list(G.get('start') or ['start'])
        self._h = 0
        self.templates = {r['name']: r for r in G['rules'] if r.get('params')}
        self.small_rep_limit = small_rep_limit
        for t in G.get('terms', []):
            self._named_term(t)
        self.ignore = [self.term_by_name[n].tid for n in G.get('ignore', [])]
        self._pending = []
        for r in G['rules']:
            if r.get('params'):
                continue
            self._add_rule(r['name'], r['name'], r, {})
        while self._pending:
            name, display, r, env = self._pending.pop(0)
            self._add_rule(name, display, r, env)

    # -- terminals
    def _named_term(self, t):
        tid = len(self.terms)
        T = Term(tid, t['name'], t['pat'], t.get('prio'), True)
        self.terms[tid] = T
        self.term_by_name[t['name']] = T
        self.term_by_pat.setdefault(tuple(t['pat']), T)
        return T

    def _anon_term(self, pat):
        key = tuple(pat)
        T = self.term_by_pat.get(key)
        if T is None:
            tid = len(self.terms)
            T = Term(tid, None, list(pat), None, False)
            self.terms[tid] = T
            self.term_by_pat[key] = T
        return T

    # -- rules
    def _new_nt(self, name, kind, display, **kw):
        nt = NT(name, kind, display, **kw)
        self.nts[name] = nt
        self.order.append(name)
        return nt

    def _add_rule(self, name, display, r, env):
        if name in self.nts:
            return
        mods = r.get('mods', '')
        nt = self._new_nt(name, 'rule', display, mods=mods, prio=r.get('prio'), keep='!' in mods)
        for i, a in enumerate(r['alts']):
            rhs = [self._item(it, nt, env) for it in a['items']]
            nt.prods.append(Prod(name, rhs, a.get('alias'), None, i))

    def _helper(self, owner, alts_rhs, maybe=None):
        self._h += 1
        name = '$h%d' % self._h
        nt = self._new_nt(name, 'helper', None, owner=owner.name if owner.kind == 'rule' else owner.owner)
        for i, rhs in enumerate(alts_rhs):
            nt.prods.append(Prod(name, rhs, None, None, i))
        if maybe is not None:
            nt.prods.append(Prod(name, [], None, maybe, len(alts_rhs)))
        return ('N', name)

    def _subst(self, it, env):
        """substitute template params in an item AST"""
        k = it[0]
        if k == 'p' or (k in ('r', 't') and it[1] in env):
            return env[it[1]]
        if k in ('g', 'm'):
            return [k, [{'items': [self._subst(i, env) for i in a['items']], 'alias': a.get('alias')} for a in it[1]]]
        if k == 'q':
            return ['q', self._subst(it[1], env)] + list(it[2:])
        if k == 'c':
            return ['c', it[1], [self._subst(a, env) for a in it[2]]]
        return it

    def _item(self, it, owner, env):
        if env:
            it = self._subst(it, env)
        k = it[0]
        if k == 'r':
            return ('N', it[1])
        if k == 't':
            return ('T', self.term_by_name[it[1]].tid, False)
        if k in ('s', 'x'):
            return ('T', self._anon_term(it).tid, True)
        if k == 'g':
            return self._helper(owner, [[self._item(i, owner, {}) for i in a['items']] for a in it[1]])
        if k == 'm':
            return self._helper(owner, [[self._item(i, owner, {}) for i in a['items']] for a in it[1]], maybe=it[1])
        if k == 'q':
            x = self._item(it[1], owner, {})
            op = it[2]
            if op == '?':
                return self._helper(owner, [[x], []])
            if op in '*+':
                # h: x | h x    (+ empty for *)
                self._h += 1
                name = '$h%d' % self._h
                nt = self._new_nt(name, 'helper', None, owner=owner.name if owner.kind == 'rule' else owner.owner)
                nt.prods.append(Prod(name, [x], None, None, 0))
                nt.prods.append(Prod(name, [('N', name), x], None, None, 1))
                if op == '*':
                    return self._helper(owner, [[('N', name)], []])
                return ('N', name)
            lo, hi = it[3], it[4]
            return self._helper(owner, [[x] * n for n in range(lo, hi + 1)])
        if k == 'c':
            t = self.templates[it[1]]
            args = it[2]
            iname = '%s{%s}' % (it[1], ','.join(print_item(a) for a in args))
            if iname not in self.nts and not any(p[0] == iname for p in self._pending):
                self._pending.append((iname, it[1], t, dict(zip(t['params'], args))))
            return ('N', iname)
        raise ValueError(it)

    # -- analyses
    def productions(self):
        for n in self.order:
            for p in self.nts[n].prods:
                yield p

    def nullable(self):
        N = set()
        ch = True
        while ch:
            ch = False
            for p in self.productions():
                if p.lhs not in N and all(s[0] == 'N' and s[1] in N for s in p.rhs):
                    N.add(p.lhs)
                    ch = True
        return N

    def productive(self):
        P = set()
        ch = True
        while ch:
            ch = False
            for p in self.productions():
                if p.lhs not in P and all(s[0] == 'T' or s[1] in P for s in p.rhs):
                    P.add(p.lhs)
                    ch = True
        return P

    def reachable(self, starts=None):
        R = set(starts or self.start)
        st = list(R)
        while st:
            x = st.pop()
            for p in self.nts[x].prods:
                for s in p.rhs:
                    if s[0] == 'N' and s[1] not in R:
                        R.add(s[1])
                        st.append(s[1])
        return R

    def is_reduced(self):
        P = self.productive()
        R = self.reachable()
        return all(n in P for n in R)

    def is_cyclic(self):
        """some non-terminal derives itself (A =>+ A)"""
        N = self.nullable()
        edges = {n: set() for n in self.nts}
        for p in self.productions():
            for k, s in enumerate(p.rhs):
                if s[0] == 'N' and all(x[0] == 'N' and x[1] in N for x in p.rhs[:k] + p.rhs[k + 1:]):
                    edges[p.lhs].add(s[1])
        for a in self.nts:
            seen = set()
            st = list(edges[a])
            while st:
                x = st.pop()
                if x == a:
                    return True
                if x in seen:
                    continue
                seen.add(x)
                st.extend(edges[x])
        return False

    def is_recursive(self):
        edges = {n: {s[1] for p in self.nts[n].prods for s in p.rhs if s[0] == 'N'} for n in self.nts}
        for a in self.nts:
            seen = set()
            st = list(edges[a])
            while st:
                x = st.pop()
                if x == a:
                    return True
                if x in seen:
                    continue
                seen.add(x)
                st.extend(edges[x])
        return False

    def has_direct_empty_alt(self):
        """a user rule alternative that is literally empty, or an EBNF construct that can vanish"""
        return any(not p.rhs for p in self.productions())


def count_kept(alts, keep, rg):
    """number of None placeholders an unmatched [alts] contributes: kept symbols of its longest
    alternative (documented in docs/tree_construction.md)"""
    def item(it):
        k = it[0]
        if k in ('r', 'c'):
            return 0 if it[1].startswith('_') else 1
        if k == 't':
            return 1 if (keep or not it[1].startswith('_')) else 0
        if k == 's':
            return 1 if keep else 0
        if k == 'x':
            return 1
        if k == 'g':
            return max(alt(a) for a in it[1])
        if k == 'm':
            return max(max(alt(a) for a in it[1]), 0)
        if k == 'q':
            if it[2] == '?':
                return max(item(it[1]), 0)
            if it[2] == '~' and it[4] < 50:
                return max(item(it[1]) * n for n in range(it[3], it[4] + 1))
            return 0
        raise ValueError(it)

    def alt(a):
        return sum(item(i) for i in a['items'])
    return max(alt(a) for a in alts)


# ------------------------------------------------------------------ size of the EBNF expansion

def expansion_estimate(G):
    """largest number of BNF alternatives a single rule of G expands to ([..], ?, groups and small ~n..m are
    multiplied out by lark).  Generators use it to stay away from grammars whose construction is merely expensive,
    so that the step budget on construction can stay a termination criterion."""
    worst = [1]

    def item(it):
        k = it[0]
        if k in ('r', 't', 's', 'x', 'p'):
            return 1
        if k == 'c':
            for a in it[2]:
                item(a)
            return 1
        if k == 'g':
            return sum(alt(a) for a in it[1])
        if k == 'm':
            return sum(alt(a) for a in it[1]) + 1
        if k == 'q':
            n = item(it[1])
            if it[2] == '?':
                return n + 1
            if it[2] in '*+':
                worst[0] = max(worst[0], 2 * n)
                return 2 if it[2] == '*' else 1
            lo, hi = it[3], it[4]
            if hi >= 50:
                worst[0] = max(worst[0], n * 10)
                return 1
            return sum(n ** e for e in range(lo, hi + 1))
        raise ValueError(it)

    def alt(a):
        n = 1
        for i in a['items']:
            n *= item(i)
        return n
    for r in G['rules']:
        worst[0] = max(worst[0], sum(alt(a) for a in r['alts']))
    return worst[0]


# ------------------------------------------------------------------ documented GrammarError predicate

def colliding_optionals(G, want_dup_empty=False):
    """True iff some rule (or the body of a repeated sub-expression, which becomes a rule of its
    own) has two choice paths through its groups / [..] / ? / small ~n..m that spell out the same
    non-empty symbol sequence -- the documented "Rules defined twice ... colliding expansion of
    optionals" case.  Aliases do not distinguish alternatives (`A | A -> x` is a duplicate)."""
    found = [False]
    dup_empty = [False]
    has_empty = [False]
    by_pat = {}
    for t in G.get('terms', []):
        by_pat.setdefault(tuple(t['pat']), t['name'])

    def seqs_item(it):
        k = it[0]
        if k in ('s', 'x') and tuple(it) in by_pat:      # literal that *is* a named terminal
            it = ['t', by_pat[tuple(it)]]
        if k in ('r', 't', 's', 'x', 'p'):
            return [(json.dumps(it),)]
        if k == 'c':
            for a in it[2]:
                seqs_item(a)
            return [(json.dumps(it),)]
        if k == 'g':
            return seqs_alts(it[1])
        if k == 'm':
            return seqs_alts(it[1]) + [()]
        if k == 'q':
            op = it[2]
            if op == '?':
                return seqs_item(it[1]) + [()]
            if op in '*+':
                inner = seqs_item(it[1])
                check(inner)
                if () in inner:
                    # repeating something that can be empty: the helper rule h: x | h x gets the alternative h: h twice
                    found[0] = True
                # x* is compiled as an optional x+ (one helper rule for both)
                return [(json.dumps(['q', it[1], '+', 0, 0]),)] + ([()] if op == '*' else [])
            lo, hi = it[3], it[4]
            inner = seqs_item(it[1])
            if hi >= 50:
                check(inner)
                if () in inner:
                    found[0] = True
                return [(json.dumps(it),)]
            out = []
            for n in range(lo, hi + 1):
                for combo in itertools.product(inner, repeat=n):
                    out.append(tuple(x for c in combo for x in c))
            return out
        raise ValueError(it)

    def seqs_alt(a):
        parts = [seqs_item(i) for i in a['items']]
        out = []
        for combo in itertools.product(*parts):
            out.append(tuple(x for c in combo for x in c))
            if len(out) > 5000:
                break
        return out

    def seqs_alts(alts):
        out = []
        for a in alts:
            out.extend(seqs_alt(a))
        return out

    def check(seqs):
        ne = [s for s in seqs if s]
        if len(ne) != len(set(ne)):
            found[0] = True
        if len(seqs) - len(ne) > 1:
            dup_empty[0] = True

    import itertools
    for r in G['rules']:
        allseq = []
        for a in r['alts']:
            allseq.extend(seqs_alt(a))
        check(allseq)
        if () in allseq:
            has_empty[0] = True
    if want_dup_empty == 'has-empty':
        return has_empty[0]
    if want_dup_empty:
        return dup_empty[0]
    return found[0]


def has_directly_empty_alternative(G):
    """some rule, once [..] / ? / groups / small ~n..m are multiplied out the way lark does it, has an alternative that
    is literally empty (r: [A] has one, r: B [A] has none)"""
    return colliding_optionals(G, want_dup_empty='has-empty')


def duplicate_empty_alternatives(G):
    """some rule can spell the empty sequence along two different choice paths.  lark keeps one of
    the identical empty productions (documented as fine in C01); which shaping (alias / None
    placeholders) survives is not specified, so tree-level oracles skip such grammars."""
    return colliding_optionals(G, want_dup_empty=True)


# ------------------------------------------------------------------ adapter: lark's compiled BNF

class LarkRulesGrammar(RefGrammar):
    """the compiled rule list of a Lark instance (public attributes .rules/.terminals/.ignore_tokens)
    wrapped so that the reference models can interpret it.  Used only where the property itself is
    about the compiled rules (C02: the LALR automaton of those rules; C20: the forest names them)."""

    def __init__(self, l, start=None):
        self.G = None
        self.nts, self.order, self.terms = {}, [], {}
        self.term_by_name, self.term_by_pat = {}, {}
        self.templates = {}
        self.start = list(start or l.options.start)
        for td in l.terminals:
            p = td.pattern
            pat = ['s' if type(p).__name__ == 'PatternStr' else 'x', p.value, ''.join(sorted(p.flags))]
            tid = len(self.terms)
            T = Term(tid, td.name, pat, td.priority, True)
            T.lexname = td.name
            self.terms[tid] = T
            self.term_by_name[td.name] = T
        self.ignore = [self.term_by_name[n].tid for n in l.ignore_tokens if n in self.term_by_name]
        self.rules = []
        for r in l.rules:
            name = r.origin.name
            if name not in self.nts:
                opts = r.options
                self._new_nt(name, 'rule', name, mods='', prio=None, keep=False)
            nt = self.nts[name]
            rhs = []
            for s in r.expansion:
                if s.is_term:
                    if s.name not in self.term_by_name:      # %declare'd terminal
                        tid = len(self.terms)
                        T = Term(tid, s.name, ['x', '(?!)', ''], None, True)
                        T.lexname = s.name
                        self.terms[tid] = T
                        self.term_by_name[s.name] = T
                    rhs.append(('T', self.term_by_name[s.name].tid, False))
                else:
                    rhs.append(('N', s.name))
            p = Prod(name, rhs, r.alias or (r.options.template_source if r.options else None), None, len(nt.prods))
            p.rule = r
            nt.prods.append(p)
            self.rules.append(p)
        for s in self.start:
            if s not in self.nts:
                self._new_nt(s, 'rule', s)

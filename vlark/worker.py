"""worker entry point (kept separate from vlark.core so that core is imported exactly once)"""
import sys
from vlark.core import worker_main

if __name__ == '__main__':
    sys.exit(worker_main(sys.argv[1:]))

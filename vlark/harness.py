"""Parent side: fan out worker subprocesses, aggregate, confirm alarms, apply the known-findings
protocol, write evidence, print verdict lines, choose the exit code (0 held / 1 violated /
3 inconclusive)."""
import sys, os, json, subprocess, time, tempfile, shutil, argparse, importlib
from concurrent.futures import ThreadPoolExecutor

VERIF = os.path.dirname(os.path.dirname(os.path.abspath(__file__)))
REPO = os.environ.get('VLARK_REPO', '/repo')
PY = os.environ.get('VLARK_PY', '/venv/bin/python')
OUT = os.environ.get('VLARK_OUT', VERIF)      # evidence/ and replays/ go here (mutation self-tests point it elsewhere)


def worker_env(extra=None):
    env = dict(os.environ)
    env['PYTHONPATH'] = REPO + os.pathsep + VERIF
    env.setdefault('PYTHONHASHSEED', '0')
    env['LARK_VERIF'] = '1'
    env['VLARK_REPO'] = REPO
    env['PYTHONDONTWRITEBYTECODE'] = '1'
    if extra:
        env.update(extra)
    return env


def run_worker(prop, tier, seed, batch, nbatch, outdir, timeout, replay=None, budget_s=None, env=None):
    out = os.path.join(outdir, 'b%03d%s%s.json' % (batch, '-replay' if replay else '', '-h' + env['PYTHONHASHSEED'] if env and 'PYTHONHASHSEED' in env else ''))
    cmd = [PY, '-m', 'vlark.worker', prop, '--tier', tier, '--seed', str(seed), '--batch', str(batch),
           '--nbatch', str(nbatch), '--out', out]
    if replay:
        cmd += ['--replay', replay]
    if budget_s:
        cmd += ['--budget-s', str(budget_s)]
    log = out + '.log'
    try:
        with open(log, 'w') as lf:
            p = subprocess.run(cmd, cwd=VERIF, env=worker_env(env), stdout=lf, stderr=subprocess.STDOUT,
                               timeout=timeout)
        if os.path.exists(out):
            with open(out) as f:
                return json.load(f)
        with open(log) as lf:
            return {'status': 'crashed', 'crash': 'no output; rc=%s; log tail: %s' % (p.returncode, lf.read()[-2000:]), 'batch': batch}
    except subprocess.TimeoutExpired:
        return {'status': 'timeout', 'batch': batch}


def load_known():
    p = os.path.join(VERIF, 'known_findings.json')
    if not os.path.exists(p):
        return {}
    with open(p) as f:
        return {e['id']: e for e in json.load(f)['findings']}


def main(argv=None):
    ap = argparse.ArgumentParser()
    ap.add_argument('prop')
    ap.add_argument('--tier', default=os.environ.get('VERIF_TIER', 'quick'))
    ap.add_argument('--seed', type=int, default=int(os.environ.get('VERIF_SEED', '0') or 0))
    ap.add_argument('--jobs', type=int, default=int(os.environ.get('VLARK_JOBS', '16')))
    ap.add_argument('--replay', default=None)
    ap.add_argument('--nbatch', type=int, default=None)
    ap.add_argument('--keep', action='store_true')
    a = ap.parse_args(argv)
    prop = a.prop.upper()
    sys.path.insert(0, VERIF)
    sys.path.insert(0, REPO)
    mod = importlib.import_module('vlark.props.' + prop.lower())
    t0 = time.time()
    tmp = tempfile.mkdtemp(prefix='vlark-%s-' % prop)
    try:
        return _main(a, prop, mod, t0, tmp)
    finally:
        if not a.keep:
            shutil.rmtree(tmp, ignore_errors=True)


def _main(a, prop, mod, t0, tmp):
    tier = a.tier
    if a.replay:
        r = run_worker(prop, tier, a.seed, 0, 1, tmp, 900, replay=os.path.abspath(a.replay))
        print(json.dumps({k: r.get(k) for k in ('status', 'violations', 'crash', 'inconclusive')}, indent=1)[:6000])
        vs = r.get('violations') or []
        for v in vs:
            print('replayed: mechanism=%s finding=%s detail=%s' % (v.get('mechanism'), v.get('finding'), json.dumps(v.get('detail'))[:400]))
        for fid in sorted({v['finding'] for v in vs if v.get('finding')}):
            print('KNOWN-FINDING: property=%s %s (replayed case)' % (prop, fid))
        vs = [v for v in vs if not v.get('finding')]
        if vs:
            print('VIOLATION property=%s replay=%s' % (prop, a.replay))
            return 1
        return 0 if r.get('status') == 'done' else 3

    nbatch = a.nbatch or mod.NBATCH[tier]
    budget = getattr(mod, 'BUDGET_S', {'quick': 100, 'thorough': 1200})[tier]
    timeout = budget * 2 + 120
    env = getattr(mod, 'WORKER_ENV', None)
    hashseeds = getattr(mod, 'HASHSEEDS', {}).get(tier)
    with ThreadPoolExecutor(max_workers=a.jobs) as ex:
        futs = [ex.submit(run_worker, prop, tier, a.seed, b, nbatch, tmp, timeout, None, budget, env) for b in range(nbatch)]
        sweep = []
        if hashseeds:
            # the same batches again in fresh processes under other hash seeds; only their aux maps are used
            for hs in hashseeds:
                e2 = dict(env or {}, PYTHONHASHSEED=str(hs), VLARK_AUX_ONLY='1')
                sweep += [(b, hs, ex.submit(run_worker, prop, tier, a.seed, b, nbatch, tmp, timeout, None, budget, e2)) for b in range(nbatch)]
        results = [f.result() for f in futs]
        sweep = [(b, hs, f.result()) for b, hs, f in sweep]
    sweep_violations = []
    sweep_compared = 0
    counters_extra = {}
    for b, hs, r in sweep:
        base = results[b].get('aux') or {}
        if r.get('status') != 'done':
            results.append(r)       # reported as a problem below
            continue
        other = r.get('aux') or {}
        for k, v in base.items():
            if k in other:
                sweep_compared += 1
                if other[k][0] != v[0]:
                    sweep_violations.append({'mechanism': 'differs-across-hash-seeds', 'finding': None,
                                             'case': dict(v[1], hashseeds=[0, hs]), 'detail': {'hashseed': hs, 'digests': [v[0], other[k][0]]}})
        # cases present on one side only: a batch that stopped on its time budget got less far (load, not lark);
        # counted, never a verdict
        counters_extra['hashseed-cases-on-one-side-only'] = counters_extra.get('hashseed-cases-on-one-side-only', 0) + len(set(base) ^ set(other))
        results.append({'status': 'done', 'counters': {'hashseed-sweep-runs': 1}})

    counters, monitors, max_steps, anchors = {}, {}, {}, {}
    evaluations = 0
    nontrivial = set()
    samples, violations, inconc = [], [], []
    problems = []
    for r in results:
        if r.get('status') != 'done':
            problems.append('worker batch %s %s: %s' % (r.get('batch'), r.get('status'), (r.get('crash') or '')[-1500:]))
        for k, v in (r.get('counters') or {}).items():
            counters[k] = counters.get(k, 0) + v
        for k, v in (r.get('monitors') or {}).items():
            monitors[k] = monitors.get(k, 0) + v
        for k, v in (r.get('max_steps') or {}).items():
            max_steps[k] = max(max_steps.get(k, 0), v)
        for k, v in (r.get('anchors') or {}).items():
            anchors[k] = anchors.get(k, 0) + v
        evaluations += r.get('evaluations', 0)
        nontrivial.update(r.get('nontrivial') or [])
        samples.extend((r.get('samples') or [])[:2])
        violations.extend(r.get('violations') or [])
        inconc.extend(r.get('inconclusive') or [])
    violations.extend(sweep_violations[:50])
    if hashseeds:
        counters['hashseed-comparisons'] = sweep_compared
        counters.update(counters_extra)

    known = load_known()
    known_seen = {}
    real = []
    for v in violations:
        fid = v.get('finding')
        if fid and fid in known and known[fid].get('status') == 'open' and known[fid].get('property') == prop:
            known_seen.setdefault(fid, []).append(v)
        else:
            real.append(v)

    # alarm confirmation in a fresh process
    confirmed, flaky = [], []
    by_mech = {}
    for v in real:
        by_mech.setdefault(v['mechanism'], []).append(v)
    rdir = os.path.join(OUT, 'replays', prop)
    shutil.rmtree(rdir, ignore_errors=True)      # replay files of earlier runs are stale
    n = 0
    for mech, vs in sorted(by_mech.items()):
        for v in vs[:3]:
            os.makedirs(rdir, exist_ok=True)
            n += 1
            path = os.path.join(rdir, '%s-%d.json' % (mech.replace('/', '_').replace(' ', '_')[:60], n))
            with open(path, 'w') as f:
                json.dump({'property': prop, 'mechanism': mech, 'case': v['case'], 'detail': v['detail'],
                           'tier': tier, 'seed': a.seed, 'repo_head': repo_head()}, f, indent=1, default=repr)
            rr = run_worker(prop, tier, a.seed, 900 + n, 1, tmp, 900, replay=path, env=env)
            rv = [x for x in (rr.get('violations') or [])]
            if any(x['mechanism'] == mech and not (x.get('finding') in known and known[x['finding']].get('status') == 'open') for x in rv):
                confirmed.append((mech, path, v))
            elif getattr(mod, 'FLAKY_IS_VIOLATION', False):
                confirmed.append((mech + ' (not reproduced in a fresh process: nondeterminism is the violation)', path, v))
            else:
                flaky.append((mech, path, v, rr.get('status'), (rr.get('crash') or '')[-500:]))

    floors = dict(getattr(mod, 'FLOORS', {}).get('quick', {}))
    if tier == 'thorough':
        # the thorough tier runs the same workload families 4x wider and ~10x longer: it must observe at least twice
        # what the quick tier must, plus what the module demands for thorough only (e.g. exhaustive enumerations)
        floors = {k: (v * 2 if v >= 100 else v) for k, v in floors.items()}     # small floors are corpus sizes / anchors: fixed
        floors.update(getattr(mod, 'FLOORS_THOROUGH', {}))
    unmet = []
    for k, m in floors.items():
        if k == 'distinct_nontrivial':
            got = len(nontrivial)
        elif k == 'evaluations':
            got = evaluations
        elif k.startswith('anchor:'):
            got = anchors.get(k[7:], 0)
        elif k.startswith('monitor:'):
            got = monitors.get(k[8:], 0)
        else:
            got = counters.get(k, 0)
        if got < m:
            unmet.append('%s=%d<%d' % (k, got, m))

    wall = time.time() - t0
    level = getattr(mod, 'LEVEL', 'exploration')
    cov = {'evaluations': evaluations, 'distinct_nontrivial': len(nontrivial),
           'rule': mod.RULE, 'samples': samples[:8],
           'features': {k[8:]: v for k, v in sorted(counters.items()) if k.startswith('feature:')},
           'counters': {k: v for k, v in sorted(counters.items()) if not k.startswith('feature:')},
           'monitors': monitors, 'anchors_reached': anchors, 'max_steps_observed': max_steps,
           'inconclusive_cases': len(inconc), 'inconclusive_samples': inconc[:5],
           'known_findings_seen': {k: max(len(v), counters.get('known:' + k, 0)) for k, v in known_seen.items()},
           'batches': len(results), 'floors': floors, 'floors_unmet': unmet,
           'flaky_unconfirmed': [(m, p) for m, p, *_ in flaky],
           'repo_head': repo_head()}
    if hasattr(mod, 'evidence_extra'):
        cov.update(mod.evidence_extra(tier, counters))
    ev = {'property_id': prop, 'tier': tier, 'seed': a.seed, 'level': level, 'coverage': cov,
          'assumptions': getattr(mod, 'ASSUMPTIONS', []), 'wall_s': round(wall, 2),
          'violations': len(confirmed)}
    os.makedirs(os.path.join(OUT, 'evidence'), exist_ok=True)
    with open(os.path.join(OUT, 'evidence', prop + '.json'), 'w') as f:
        json.dump(ev, f, indent=1, default=repr)

    print('%s tier=%s seed=%d evaluations=%d distinct_nontrivial=%d wall=%.1fs' % (prop, tier, a.seed, evaluations, len(nontrivial), wall))
    keys = [k for k in sorted(counters) if not k.startswith('feature:')]
    print('  counters: ' + ', '.join('%s=%d' % (k, counters[k]) for k in keys))
    feats = [k for k in sorted(counters) if k.startswith('feature:')]
    if feats:
        print('  features: ' + ', '.join('%s=%d' % (k[8:], counters[k]) for k in feats))
    if monitors:
        print('  monitors: ' + ', '.join('%s=%d' % kv for kv in sorted(monitors.items())))
    if anchors:
        print('  anchors: ' + ', '.join('%s=%d' % kv for kv in sorted(anchors.items())))
    if max_steps:
        print('  max_steps: ' + ', '.join('%s=%d' % kv for kv in sorted(max_steps.items())))
    for fid, vs in sorted(known_seen.items()):
        print('KNOWN-FINDING: property=%s %s: %s (%d cases this run)' % (prop, fid, known[fid]['what_fails'], max(len(vs), counters.get('known:' + fid, 0))))
    rc = 0
    for mech, path, v in confirmed:
        print('VIOLATION property=%s replay=%s' % (prop, path))
        print('  mechanism: %s' % mech)
        print('  detail: %s' % json.dumps(v['detail'], default=repr)[:1500])
        rc = 1
    if rc == 0:
        for m, p, v, st, crash in flaky:
            print('INCONCLUSIVE property=%s reason=alarm-not-reproduced mechanism=%s replay=%s status=%s %s' % (prop, m, p, st, crash))
            rc = 3
        for pr in problems:
            print('INCONCLUSIVE property=%s reason=%s' % (prop, pr))
            rc = 3
        if unmet:
            print('INCONCLUSIVE property=%s reason=floors-unmet %s' % (prop, ' '.join(unmet)))
            rc = 3
        lim = getattr(mod, 'MAX_INCONCLUSIVE_CASES', {'quick': 20, 'thorough': 200})[tier]
        if len(inconc) > lim or counters.get('inconclusive_cases', 0) > lim:
            print('INCONCLUSIVE property=%s reason=too-many-inconclusive-cases %d' % (prop, counters.get('inconclusive_cases', 0)))
            for i in inconc[:3]:
                print('   ', json.dumps(i, default=repr)[:400])
            rc = 3
    if rc == 0:
        print('HELD property=%s on %d evaluations (%d distinct non-trivial)' % (prop, evaluations, len(nontrivial)))
    return rc


_head = None


def repo_head():
    global _head
    if _head is None:
        try:
            h = subprocess.run(['git', '-C', REPO, 'rev-parse', '--short', 'HEAD'], capture_output=True, text=True).stdout.strip()
            d = subprocess.run(['git', '-C', REPO, 'status', '--porcelain', '--untracked-files=no'], capture_output=True, text=True).stdout.strip()
            _head = h + ('+dirty' if d else '')
        except Exception:
            _head = 'unknown'
    return _head


if __name__ == '__main__':
    sys.exit(main())

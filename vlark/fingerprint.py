"""Instance-state fingerprint: a deterministic digest of everything reachable from an object
(containers by content, re.Pattern by (pattern, flags), functions/classes/modules by name, cycles
by first-visit index).  Used as a quiescent-point invariant: after warm-up the state reachable
from a Lark instance must not change, whatever calls are made on it."""
import hashlib, re, types, collections

try:
    import regex as _regex
    _PATTERN_TYPES = (re.Pattern, _regex.Pattern)
except Exception:       # pragma: no cover
    _PATTERN_TYPES = (re.Pattern,)

ATOM = (str, bytes, int, float, bool, type(None), complex)


class Fingerprinter:
    def __init__(self, skip_attr=None, max_nodes=400000):
        """skip_attr(obj, name) -> True to leave an attribute out"""
        self.skip_attr = skip_attr or (lambda o, n: False)
        self.max_nodes = max_nodes

    def digest(self, root):
        self.nodes = 0
        h = hashlib.sha1()
        self._walk(root, {}, h.update, 0)
        return h.hexdigest()[:16], self.nodes

    def paths(self, root, depth=4):
        """{attribute path: digest} for the first levels below root: locates what changed"""
        out = {}

        def rec(o, path, d):
            dg = self.digest(o)[0]
            out[path] = dg
            if d <= 0:
                return
            for name, v in self._attrs(o):
                if not isinstance(v, ATOM):
                    rec(v, path + '.' + name, d - 1)
        rec(root, '', depth)
        return out

    def _attrs(self, o):
        items = []
        d = getattr(o, '__dict__', None)
        if isinstance(d, dict):
            items += list(d.items())
        for cls in type(o).__mro__:
            for s in getattr(cls, '__slots__', ()) or ():
                if isinstance(s, str) and hasattr(o, s) and s not in ('__dict__', '__weakref__'):
                    try:
                        items.append((s, getattr(o, s)))
                    except Exception:
                        pass
        return sorted(((n, v) for n, v in items if not self.skip_attr(o, n)), key=lambda kv: kv[0])

    def _iso(self, o):
        """digest of o in an isolated context (for unordered containers)"""
        h = hashlib.sha1()
        self._walk(o, {}, h.update, 0)
        return h.digest()

    def _walk(self, o, seen, put, depth):
        self.nodes += 1
        if self.nodes > self.max_nodes:
            raise RuntimeError('fingerprint: object graph too large')
        w = lambda s: put(s.encode('utf-8', 'surrogatepass'))
        if isinstance(o, ATOM):
            w('%s:%r;' % (type(o).__name__, o))
            return
        if isinstance(o, _PATTERN_TYPES):
            w('re:%r:%r;' % (o.pattern, o.flags))
            return
        if isinstance(o, (types.FunctionType, types.BuiltinFunctionType, types.MethodDescriptorType, type)):
            w('fn:%s.%s;' % (getattr(o, '__module__', ''), getattr(o, '__qualname__', repr(o))))
            return
        if isinstance(o, types.MethodType):
            w('meth:%s(' % getattr(o.__func__, '__qualname__', ''))
            self._walk(o.__self__, seen, put, depth + 1)
            w(');')
            return
        if isinstance(o, types.ModuleType):
            w('mod:%s;' % o.__name__)
            return
        i = seen.get(id(o))
        if i is not None:
            w('ref:%d;' % i)
            return
        seen[id(o)] = len(seen)
        if isinstance(o, (list, tuple, collections.deque)):
            w('%s[' % type(o).__name__)
            for x in o:
                self._walk(x, seen, put, depth + 1)
            w('];')
        elif isinstance(o, dict):
            w('%s{' % type(o).__name__)
            try:
                items = sorted(o.items(), key=lambda kv: (type(kv[0]).__name__, kv[0]))
                for k, v in items:
                    self._walk(k, seen, put, depth + 1)
                    w('=>')
                    self._walk(v, seen, put, depth + 1)
            except TypeError:
                # keys without an order: sort entries by an isolated digest of the key
                ent = sorted(((self._iso(k), k, v) for k, v in o.items()), key=lambda e: e[0])
                for dk, k, v in ent:
                    put(dk)
                    w('=>')
                    self._walk(v, seen, put, depth + 1)
            w('};')
        elif isinstance(o, (set, frozenset)):
            w('%s{' % type(o).__name__)
            for d in sorted(self._iso(x) for x in o):
                put(d)
            w('};')
        else:
            w('obj:%s.%s(' % (type(o).__module__, type(o).__qualname__))
            if isinstance(o, (set, frozenset, list, tuple, dict)):      # subclasses with attributes
                pass
            # objects that behave as containers (OrderedSet etc.) are covered through their attributes
            for name, v in self._attrs(o):
                w(name + '=')
                self._walk(v, seen, put, depth + 1)
                w(',')
            if isinstance(o, str):
                w(repr(str(o)))
            w(');')

    # ------------------------------------------------------------------ flat form
    def flat(self, root):
        """{path: leaf} over everything reachable.  Leaves are atoms, patterns, names of functions /
        classes / modules, digests of unordered sets, type+length of sequences, back references."""
        out = {}
        seen = {}
        self.nodes = 0
        stack = [('', root)]
        while stack:
            path, o = stack.pop()
            self.nodes += 1
            if self.nodes > self.max_nodes:
                raise RuntimeError('fingerprint: object graph too large')
            if isinstance(o, ATOM):
                out[path] = '%s:%r' % (type(o).__name__, o)
            elif isinstance(o, _PATTERN_TYPES):
                out[path] = 're:%r:%r' % (o.pattern, o.flags)
            elif isinstance(o, (types.FunctionType, types.BuiltinFunctionType, types.MethodDescriptorType, type)):
                out[path] = 'fn:%s.%s' % (getattr(o, '__module__', ''), getattr(o, '__qualname__', repr(o)))
            elif isinstance(o, types.ModuleType):
                out[path] = 'mod:' + o.__name__
            elif id(o) in seen:
                out[path] = 'ref:' + seen[id(o)]
            else:
                seen[id(o)] = path
                if isinstance(o, types.MethodType):
                    out[path] = 'meth:' + getattr(o.__func__, '__qualname__', '')
                    stack.append((path + '.__self__', o.__self__))
                elif isinstance(o, (list, tuple, collections.deque)):
                    out[path] = '%s[%d]' % (type(o).__name__, len(o))
                    for i, x in enumerate(o):
                        stack.append(('%s[%d]' % (path, i), x))
                elif isinstance(o, dict):
                    out[path] = type(o).__name__ + '{}'
                    for k, v in o.items():
                        if isinstance(k, ATOM):
                            kp = '%s{%r}' % (path, k)
                        else:
                            kp = '%s{#%s}' % (path, self._iso(k).hex()[:12])
                            out[kp + '#key'] = self._iso(k).hex()[:16]
                        stack.append((kp, v))
                elif isinstance(o, (set, frozenset)):
                    out[path] = '%s:%s' % (type(o).__name__, hashlib.sha1(b''.join(sorted(self._iso(x) for x in o))).hexdigest()[:16])
                else:
                    out[path] = 'obj:%s.%s' % (type(o).__module__, type(o).__qualname__)
                    for name, v in self._attrs(o):
                        stack.append((path + '.' + name, v))
        return out


def lazy_fill_diff(base, now):
    """compare two flat fingerprints.  -> (violations [(path, old, new)], fills [path]).
    Allowed: a path that was absent or None in `base` and now holds a value (a lazily built cache
    appearing once) together with everything below it.  `base` is updated with accepted fills, so a
    second change of the same path is a violation."""
    viol, fills = [], []
    accepted = []
    for p in sorted(now):
        if any(p.startswith(a) for a in accepted):
            continue
        old, new = base.get(p), now[p]
        if old == new:
            continue
        if old is None or old == 'NoneType:None':
            # is it a top-most new path?  (parent exists in base, or root)
            accepted.append(p)
            fills.append(p)
        else:
            viol.append((p, old, new))
    for p in base:
        if p not in now and not any(p.startswith(a) for a in accepted):
            viol.append((p, base[p], None))
    if fills:
        for a in accepted:
            for p in list(base):
                if p.startswith(a):
                    del base[p]
            for p in now:
                if p.startswith(a):
                    base[p] = now[p]
    return viol, fills

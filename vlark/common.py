"""helpers shared by property drivers (worker side)"""
import re
from .core import STEPS, wall_guard, WallTimeout, StepBudgetExceeded, canon_exc, canon_tree, digest, CanonTooBig, canon_reset
from .gram import RefGrammar, print_grammar
from . import ref as R

BUILD_BUDGET = 3_000_000
PARSE_BUDGET = 6_000_000
WALL_S = 60


def build(ctx, text, budget=BUILD_BUDGET, **opts):
    """construct Lark under step budget + wall guard.
    -> ('ok', lark) | ('exc', canon_exc) | ('budget', n) | ('wall', s)"""
    from lark import Lark
    try:
        with wall_guard(WALL_S):
            l = STEPS.run('build', budget, Lark, text, **opts)
        return 'ok', l
    except StepBudgetExceeded as e:
        return 'budget', budget
    except WallTimeout:
        return 'wall', WALL_S
    except RecursionError:
        return 'exc', {'class': 'RecursionError', 'is_ui': False, 'is_lark': False, 'msg': ''}
    except Exception as e:
        return 'exc', canon_exc(e)


def call(ctx, op, fn, *a, budget=PARSE_BUDGET, pos=False, meta=False, raw=False, **kw):
    """run a lark API call -> ['ok', canon] | ['exc', canon_exc] | ['budget', n] | ['wall', s]"""
    try:
        with wall_guard(WALL_S):
            r = STEPS.run(op, budget, fn, *a, **kw)
            # canonicalisation is inside the wall guard too: an explicit-ambiguity tree can be exponentially large
            canon_reset()
            return ['ok', r if raw else canon_tree(r, pos, meta)]
    except CanonTooBig:
        return ['wall', 'result tree too large to canonicalise']
    except StepBudgetExceeded:
        return ['budget', budget]
    except WallTimeout:
        return ['wall', WALL_S]
    except RecursionError:
        return ['exc', {'class': 'RecursionError', 'is_ui': False, 'is_lark': False, 'msg': ''}]
    except Exception as e:
        if type(e).__name__ in ('AttributeError', 'TypeError', 'IndexError', 'KeyError', 'NameError', 'UnboundLocalError', 'AssertionError'):
            # made visible in every evidence file: exceptions of these classes out of a lark API call are rarely a verdict
            # about the input (each check decides what they mean where it is called)
            ctx.count('api-call-raised:%s:%s' % (op, type(e).__name__))
        return ['exc', canon_exc(e)]


def basic_tokens(rg, text, gflags=0):
    """reference tokenisation for the basic lexer over the terminals reachable from the start
    symbols (+ ignore).  -> (TokenInput | None, fail_pos)"""
    reach = rg.reachable()
    used = set(rg.ignore)
    for n in reach:
        for p in rg.nts[n].prods:
            for s in p.rhs:
                if s[0] == 'T':
                    used.add(s[1])
    terms = []
    for tid in sorted(used):
        T = rg.terms[tid]
        T.lexname = T.name or ('~%d' % tid)
        terms.append(T)
    ign = [rg.terms[t].lexname for t in rg.ignore]
    lx = R.RefLexer(terms, ign, gflags)
    toks, fail = lx.lex(text)
    if fail is not None:
        return None, fail
    byname = {T.lexname: T.tid for T in terms}
    return R.TokenInput([(byname[n], v, s, e) for (n, v, s, e) in toks]), None


def named_types(rg):
    return {T.name for T in rg.terms.values() if T.named}


def lark_names(rg, l):
    """tid -> lark terminal name (named: its name; anonymous: the terminal lark created for that pattern)"""
    out = {}
    for tid, T in rg.terms.items():
        if T.named:
            out[tid] = T.name
            continue
        for td in l.terminals:
            p = td.pattern
            if p.value == T.pat[1] and (type(p).__name__ == 'PatternStr') == (T.pat[0] == 's') and ''.join(sorted(p.flags)) == ''.join(sorted(T.pat[2])):
                out[tid] = td.name
                break
    return out

"""C17  %import / %override / %extend / templates mean what textual inlining means."""
import os, re, copy, shutil, tempfile
from ..core import STEPS, digest, canon_tree
from ..common import build, call
from ..gram import RefGrammar, print_grammar, print_alts, print_pat
from .. import ref as R, gen

NBATCH = {'quick': 16, 'thorough': 64}
BUDGET_S = {'quick': 80, 'thorough': 180}
PER_BATCH = {'quick': 250, 'thorough': 4000}
FLOORS = {
    'quick': {'distinct_nontrivial': 2500, 'modular-grammars': 500, 'inputs-judged': 8000, 'feature:transitive-dependency': 3000, 'feature:rename': 2500,
              'feature:multi-import': 2500, 'feature:same-named-local-definition': 1500, 'feature:override-rule': 1000, 'feature:override-dependency': 500,
              'feature:extend-rule': 1000, 'feature:override-terminal': 500, 'feature:extend-terminal': 500, 'feature:imported-template': 300, 'feature:directive-reaches-composed-terminal': 150,
              'feature:module-ignore-dropped': 2500, 'feature:two-levels': 400, 'feature:underscore-names': 1000, 'feature:accepted': 4000, 'feature:rejected': 2500,
              'engine:lalr': 1500, 'engine:earley-explicit': 5000, 'engine:lalr-keep_all_tokens': 1500, 'module-edit:second-loads': 250,
              'module-edit:inputs-judged': 8000, 'feature:module-edit-reaches-local-composed-terminal': 15, 'feature:rename-changes-filtering': 400},
    'thorough-unused': {'distinct_nontrivial': 40000, 'modular-grammars': 12000},
}
RULE = ("cases = (flat grammar F, a split of F into main + 1-2 module files with %import statements (single, multi, renaming, "
        "relative and import_paths forms), optional %override / %extend of imported rules, dependencies and terminals, local "
        "definitions named like non-imported module definitions, %ignore inside modules, templates defined in a module and "
        "instantiated in main; input); the flat equivalent is written out by the generator (overrides replace the body, "
        "extends append an alternative, transitive dependencies keep their body); oracle: the modular grammar constructs "
        "whenever the flat one does, accepts exactly the same inputs and returns the same set of trees under "
        "ambiguity='explicit' (and the same tree under LALR when both construct) modulo the documented module__ prefixes "
        "and the chosen renames; non-trivial = split with a transitive dependency and a name that exists both locally and "
        "in a module; distinct by (flat grammar, split, input)")
ASSUMPTIONS = ["the flat grammar is interpreted by lark itself (its tree construction is judged by C03): this check is differential between two grammars",
               "names are compared after stripping module prefixes (m1__, m1__m2__) and applying the import renames; token types of anonymous tokens are not compared",
               "the position at which %extend inserts its alternative is unspecified, so trees are compared as sets under ambiguity='explicit'"]
PFX = re.compile(r'^(_?)(?:m[12]__)+')


# ------------------------------------------------------------------ AST helpers

def refs(items, out):
    for it in items:
        k = it[0]
        if k == 'r':
            out.add(('r', it[1]))
        elif k == 't':
            out.add(('t', it[1]))
        elif k in ('g', 'm'):
            for a in it[1]:
                refs(a['items'], out)
        elif k == 'q':
            refs([it[1]], out)
        elif k == 'c':
            out.add(('r', it[1]))
            refs(it[2], out)
    return out


def rule_refs(r):
    out = set()
    for a in r['alts']:
        refs(a['items'], out)
    return {x for x in out if x[1] not in (r.get('params') or [])}


def literal_strings(G):
    out = set()

    def walk(items):
        for it in items:
            if it[0] == 's':
                out.add(it[1])
            elif it[0] in ('g', 'm'):
                for a in it[1]:
                    walk(a['items'])
            elif it[0] == 'q':
                walk([it[1]])
            elif it[0] == 'c':
                walk(it[2])
    for r in G['rules']:
        for a in r['alts']:
            walk(a['items'])
    return out


def rename_items(items, rn):
    out = []
    for it in items:
        k = it[0]
        if k in ('r', 't') and (k, it[1]) in rn:
            out.append([k, rn[(k, it[1])]])
        elif k in ('g', 'm'):
            out.append([k, [dict(a, items=rename_items(a['items'], rn)) for a in it[1]]])
        elif k == 'q':
            out.append(['q', rename_items([it[1]], rn)[0]] + list(it[2:]))
        elif k == 'c':
            out.append(['c', rn.get(('r', it[1]), it[1]), rename_items(it[2], rn)])
        else:
            out.append(it)
    return out


def rename_rule(r, rn):
    r = dict(r)
    r['alts'] = [dict(a, items=rename_items(a['items'], rn)) for a in r['alts']]
    return r


def print_module(rules, terms, extra):
    return print_grammar({'rules': rules, 'terms': terms, 'ignore': [], 'extra': extra})


# ------------------------------------------------------------------ the split

def closure(G, roots):
    rules = {r['name']: r for r in G['rules']}
    terms = {t['name']: t for t in G['terms']}
    S = set()
    st = list(roots)
    while st:
        x = st.pop()
        if x in S:
            continue
        S.add(x)
        if x[0] == 'r' and x[1] in rules:
            st.extend(rule_refs(rules[x[1]]))
        elif x[0] == 't':
            st.extend(('t', d) for d in terms.get(x[1], {}).get('deps', []))      # terminals composed from terminals
    return S


def add_composed_terminal(rng, G):
    """a terminal defined in terms of another one (CMPA: A+ ";"): %extend / %override of A must reach it"""
    lits = literal_strings(G)
    cands = [t for t in G['terms'] if t['pat'][0] == 's' and not t['pat'][2] and t['pat'][1] not in lits and t['name'] not in G['ignore']
             and not t['name'].startswith('_')]
    rules = [r for r in G['rules'] if r['name'] != 'start' and not r.get('params')]
    if not cands or not rules:
        return
    T = rng.choice(cands)
    ch = T['pat'][1]
    name = 'CMP' + T['name']
    G['terms'].append({'name': name, 'prio': None, 'pat': ['x', '(?:%s)+;' % re.escape(ch), ''], 'text': '%s+ ";"' % T['name'],
                       'ex': [ch + ';', ch + ch + ';'], 'deps': [T['name']], 'base': T['name']})
    rng.choice(rules)['alts'].append(gen.alt([['t', name]]))
    G['alphabet'] = sorted(set(G['alphabet']) | {';'})


def split(rng, G):
    """-> dict(files={name: text}, main=text, flat=G', rename={('r'|'t', flat name): modular name}, feats=set) or None"""
    G = copy.deepcopy(G)
    rules = {r['name']: r for r in G['rules']}
    terms = {t['name']: t for t in G['terms']}
    feats = set()
    cands = [n for n in rules if n != 'start']
    rng.shuffle(cands)
    S = None
    for c in cands:
        S1 = closure(G, [('r', c)])
        if ('r', 'start') not in S1 and not any(('t', i) in S1 for i in G['ignore']):
            S, root = S1, c
            break
    if S is None:
        return None
    main_rules = [r for r in G['rules'] if ('r', r['name']) not in S]
    used_by_main = set()
    for r in main_rules:
        used_by_main |= rule_refs(r) & S
    for t in G['terms']:
        if ('t', t['name']) not in S:
            used_by_main |= {('t', d) for d in t.get('deps', [])} & S      # a composed terminal that stays in main
    if not used_by_main:
        return None
    imported = set(used_by_main)
    # sometimes import more than needed
    for x in sorted(S - imported):
        if rng.random() < 0.2 and not (x[0] == 'r' and rules.get(x[1], {}).get('params')):
            imported.add(x)
    for t in G['terms']:
        if t.get('base') and ('t', t['base']) in S and rng.random() < 0.8:
            imported.add(('t', t['base']))
    transitive = S - imported
    if transitive:
        feats.add('transitive-dependency')
    if any(n.startswith('_') for _, n in S):
        feats.add('underscore-names')
    flat = copy.deepcopy(G)
    frules = {r['name']: r for r in flat['rules']}
    fterms = {t['name']: t for t in flat['terms']}
    # ---- second level: part of S goes to m2
    S2 = set()
    m1_only = [x for x in sorted(S) if x[0] == 'r' and x[1] != root]
    if m1_only and rng.random() < 0.5:
        c2 = rng.choice(m1_only)
        S2c = closure(G, [c2])
        # m2 must be self-contained and must not hold anything main imports directly
        if not (S2c & imported) and S2c < S:
            S2 = S2c
            feats.add('two-levels')
    S1only = S - S2
    # ---- renames
    rn = {}
    flip = {}
    lits0 = literal_strings(G)
    for x in sorted(imported):
        if rng.random() < 0.35:
            new = ('ren_' + x[1].lstrip('_')) if x[0] == 'r' else ('REN' + x[1].lstrip('_'))
            if x[0] == 'r' and x[1].startswith('_'):
                new = '_' + new
            if x[0] == 't' and x[1].startswith('_'):
                new = '_' + new
            if (x[0] == 't' and rng.random() < 0.4 and terms[x[1]]['pat'][1] not in lits0 and not terms[x[1]].get('base')
                    and not any(t.get('base') == x[1] for t in G['terms'])):
                # the new name changes whether the terminal is filtered (_SEP -> SEMI, W -> _W): by hand, every occurrence
                # of it - also those inside the module's own rules - carries the new name; the flat grammar is renamed too
                new = new[1:] if new.startswith('_') else '_' + new
                flip[x] = new
                feats.add('rename-changes-filtering')
            rn[x] = new
            feats.add('rename')
    # ---- main text
    lines = []
    rel = rng.random() < 0.5
    mod = ('.m1' if rel else 'm1')
    imp = sorted(imported)
    multi = [x for x in imp if x not in rn and rng.random() < 0.6]
    if len(multi) >= 2:
        lines.append('%%import %s (%s)' % (mod, ', '.join(n for _, n in multi)))
        feats.add('multi-import')
    else:
        multi = []
    for x in imp:
        if x in multi:
            continue
        lines.append('%%import %s.%s%s' % (mod, x[1], (' -> ' + rn[x]) if x in rn else ''))
    main_r = [rename_rule(r, rn) for r in main_rules]
    main_t = [t for t in G['terms'] if ('t', t['name']) not in S]
    main_t = [dict(t, text='%s+ ";"' % rn.get(('t', t['base']), t['base'])) if t.get('base') else t for t in main_t]
    # ---- same-named local definition (no capture): a local rule called like a transitive module rule
    shadowed = None
    tr_rules = [n for k, n in sorted(transitive) if k == 'r' and not rules[n].get('params') and not n.startswith('_')]
    if tr_rules and rng.random() < 0.6:
        n = rng.choice(tr_rules)
        body = [gen.alt([gen.LIT('!'), gen.LIT('!')])]
        local = gen.rule(n, body)
        main_r.append(local)
        main_r[0] = dict(main_r[0], alts=main_r[0]['alts'] + [gen.alt([['r', n], gen.LIT('#')])])
        # flat: the module's rule keeps its body under the documented namespaced name, the local one is new
        pre = 'm1__m2__' if ('r', n) in S2 else 'm1__'
        ren = {('r', n): pre + n}
        for fr in flat['rules']:
            if ('r', fr['name']) in S:
                fr['alts'] = rename_rule(fr, ren)['alts']
        frules[n]['name'] = pre + n
        flat['rules'].append(copy.deepcopy(local))
        flat['rules'][0]['alts'] = flat['rules'][0]['alts'] + [gen.alt([['r', n], gen.LIT('#')])]
        flat['alphabet'] = sorted(set(flat['alphabet']) | {'!', '#'})
        feats.add('same-named-local-definition')
        shadowed = n
        frules = {r['name']: r for r in flat['rules']}
    # ---- override / extend (of names visible in main)
    directives = []
    flat_alt = None
    vis_rules = [x for x in imp if x[0] == 'r' and not rules[x[1]].get('params')]
    if vis_rules and rng.random() < 0.45:
        x = rng.choice(vis_rules)
        name_main = rn.get(x, x[1])
        newalt = [gen.alt([gen.LIT('%'), gen.LIT('%')])]
        if rng.random() < 0.5:
            directives.append('%%override %s: %s' % (name_main, print_alts(newalt)))
            frules[x[1]]['alts'] = newalt
            frules[x[1]]['mods'] = ''          # an overriding definition carries its own modifiers
            frules[x[1]]['prio'] = None
            feats.add('override-rule')
        else:
            directives.append('%%extend %s: %s' % (name_main, print_alts(newalt)))
            frules[x[1]]['alts'] = frules[x[1]]['alts'] + newalt
            feats.add('extend-rule')
        flat['alphabet'] = sorted(set(flat['alphabet']) | {'%'})
    dep_rules = [n for k, n in sorted(transitive) if k == 'r' and not rules[n].get('params') and ('r', n) not in S2]
    if dep_rules and rng.random() < 0.35:
        n = rng.choice(dep_rules)
        newalt = [gen.alt([gen.LIT('&'), gen.LIT('&')])]
        # documented namespacing: module__name, with the leading underscore of _names kept in front
        mangled = ('_m1__' + n[1:]) if n.startswith('_') else ('m1__' + n)
        directives.append('%%override %s: %s' % (mangled, print_alts(newalt)))
        fr = frules[('m1__' + n) if n == shadowed else n]
        fr['alts'], fr['mods'], fr['prio'] = newalt, '', None
        flat['alphabet'] = sorted(set(flat['alphabet']) | {'&'})
        feats.add('override-dependency')
    # (a literal that coincides with the terminal would be bound to it before the %extend / %override is applied,
    # which no textual inlining can express: such terminals are left alone)
    lits = literal_strings(G)
    vis_terms = [x for x in imp if x[0] == 't' and terms[x[1]]['pat'][0] == 's' and not terms[x[1]]['pat'][2] and terms[x[1]]['pat'][1] not in lits]
    composed = {t['base']: t['name'] for t in G['terms'] if t.get('base') and ('t', t['name']) in S}
    if vis_terms and (rng.random() < 0.4 or any(x[1] in composed for x in vis_terms)):
        pref = [x for x in vis_terms if x[1] in composed]
        x = rng.choice(pref or vis_terms)
        name_main = rn.get(x, x[1])
        ft = fterms[x[1]]
        if rng.random() < 0.5:
            directives.append('%%override %s: "y"' % name_main)
            ft['pat'] = ['s', 'y', '']
            ft['ex'] = ['y']
            feats.add('override-terminal')
            if x[1] in composed:
                fc = fterms[composed[x[1]]]
                # model of finding F-C17-1: the composed terminal keeps the body its base had inside the module
                flat_alt = copy.deepcopy(flat)
                for t in flat_alt['terms']:
                    if t['name'] == fc['name']:
                        t['text'] = '%s+ ";"' % print_pat(terms[x[1]]['pat'])
                fc['pat'], fc['ex'] = ['x', '(?:y)+;', ''], ['y;', 'yy;']
                feats.add('directive-reaches-composed-terminal')
                feats.add('override-of-composed-base')
        else:
            directives.append('%%extend %s: "y"' % name_main)
            ft['text'] = '%s | "y"' % print_pat(ft['pat'])
            ft['ex'] = list(ft.get('ex') or [ft['pat'][1]]) + ['y']
            old = ft['pat'][1]
            ft['pat'] = ['x', '(?:%s|y)' % re.escape(old), '']
            feats.add('extend-terminal')
            if x[1] in composed:
                fc = fterms[composed[x[1]]]
                fc['pat'], fc['ex'] = ['x', '(?:%s|y)+;' % re.escape(old), ''], fc['ex'] + ['y;', old + 'y;']
                feats.add('directive-reaches-composed-terminal')
        flat['alphabet'] = sorted(set(flat['alphabet']) | {'y'})
    if any(rules[n].get('params') for k, n in imp if k == 'r'):
        feats.add('imported-template')
    main_text = print_grammar({'rules': main_r, 'terms': main_t, 'ignore': G['ignore'], 'extra': lines + directives})
    # ---- module texts
    m1_rules = [r for r in G['rules'] if ('r', r['name']) in S1only]
    m1_terms = [t for t in G['terms'] if ('t', t['name']) in S1only]
    extra1 = []
    if S2:
        used_by_m1 = set()
        for r in m1_rules:
            used_by_m1 |= rule_refs(r) & S2
        for t in m1_terms:
            used_by_m1 |= {('t', d) for d in t.get('deps', [])} & S2        # a composed terminal of m1 whose base lives in m2
        for x in sorted(used_by_m1):
            extra1.append('%%import %s.%s' % ('.m2' if rel else 'm2', x[1]))
    # an %ignore inside a module must not be honoured
    extra1 += ['JUNK: "~"', '%ignore JUNK']
    feats.add('module-ignore-dropped')
    files = {'m1.lark': print_module(m1_rules, m1_terms, extra1)}
    if S2:
        files['m2.lark'] = print_module([r for r in G['rules'] if ('r', r['name']) in S2], [t for t in G['terms'] if ('t', t['name']) in S2], ['JUNK2: "^"', '%ignore JUNK2'])
    flat['alphabet'] = sorted(set(flat['alphabet']) | {'~'})
    for F in (flat, flat_alt):
        if F is None:
            continue
        for x, new in flip.items():
            F['rules'] = [rename_rule(r, {x: new}) for r in F['rules']]
            for t in F['terms']:
                if t['name'] == x[1]:
                    t['name'] = new
    return {'files': files, 'main': main_text, 'flat': flat, 'flat_alt': flat_alt, 'rename': {'%s:%s' % k: v for k, v in rn.items() if k not in flip}, 'feats': feats,
            'relative': rel}


# ------------------------------------------------------------------ comparison

def norm_tree(t, rn, named):
    """canonical tree -> names without module prefixes, import renames undone, anonymous token types erased"""
    if t is None:
        return None
    if t[0] == 'T':
        typ = PFX.sub(r'\1', t[1])
        typ = rn.get('t:' + typ, typ)
        # a literal whose canonical name ("+" -> PLUS) is taken by a terminal of the flat grammar is called PLUS again
        # once that terminal lives in a module as m1__PLUS: the value tells the two apart
        return ('T', typ if typ in named and named[typ].fullmatch(t[2]) else None, t[2])
    if t[0] == 'N':
        name = PFX.sub(r'\1', t[1]) if t[1] != '_ambig' else t[1]
        return ('N', rn.get('r:' + name, name), tuple(norm_tree(c, rn, named) for c in t[2]))
    return R.freeze(t)


def tree_set(t, rn, named):
    return frozenset(R.freeze(x) for x in R.expand_ambig(_unfreeze(norm_tree(t, rn, named))))


def _unfreeze(t):
    if isinstance(t, tuple):
        if t and t[0] == 'N':
            return ['N', t[1], [_unfreeze(c) for c in t[2]]]
        return list(t)
    return t


def run_case(ctx, sp, texts, tmp, only_input=None):
    flat = sp['flat']
    ftext = print_grammar(flat)
    for fn, tx in sp['files'].items():
        with open(os.path.join(tmp, fn), 'w') as f:
            f.write(tx)
    case0 = {'flat': flat, 'flat_alt': sp.get('flat_alt'), 'main': sp['main'], 'files': sp['files'], 'rename': sp['rename'], 'relative': sp['relative']}
    back = {}
    for k, v in sp['rename'].items():
        back[k[0] + ':' + v] = k[2:]
    named = {t['name']: re.compile(re.escape(t['pat'][1]) if t['pat'][0] == 's' else t['pat'][1], re.I if 'i' in t['pat'][2] else 0) for t in flat['terms']}
    feats = sorted(sp['feats'])
    nontriv = 'transitive-dependency' in sp['feats'] and 'same-named-local-definition' in sp['feats']
    imp = dict(source_path=os.path.join(tmp, 'main.lark')) if sp['relative'] else dict(import_paths=[tmp])
    engines = [('earley-explicit', dict(parser='earley', lexer='basic', ambiguity='explicit')), ('lalr', dict(parser='lalr')),
               ('lalr-keep_all_tokens', dict(parser='lalr', keep_all_tokens=True))]
    built = False
    for ename, kw in engines:
        st, lf = build(ctx, ftext, **kw)
        if st != 'ok':
            ctx.count('flat-not-constructible:%s:%s' % (ename, st))
            continue
        lalt = None
        if sp.get('flat_alt'):
            sta, lalt = build(ctx, print_grammar(sp['flat_alt']), **kw)
            if sta != 'ok':
                lalt = None

        def explained(w, b):
            """F-C17-1: does the modular grammar behave exactly like the flat grammar in which the composed terminal
            kept the old body of its overridden base?"""
            if lalt is None:
                return None
            c = call(ctx, 'parse', lalt.parse, w, budget=400_000)
            if (c[0] == 'ok') != (b[0] == 'ok'):
                return None
            if c[0] == 'ok':
                try:
                    if tree_set(c[1], {}, named) != tree_set(b[1], back, named):
                        return None
                except R.TooMany:
                    return None
            return 'F-C17-1'
        st, lm = build(ctx, sp['main'], **dict(kw, **imp))
        if st != 'ok':
            ctx.judged([ftext, sp['main'], ename, 'construct'], nontriv, feats)
            ctx.violation('modular-grammar-fails-where-flat-constructs:%s' % ename, dict(case0, engine=ename), {'status': st, 'exc': lm if st == 'exc' else None})
            continue
        if not built:
            ctx.count('modular-grammars')
            built = True
        for w in texts:
            a = call(ctx, 'parse', lf.parse, w, budget=400_000)
            b = call(ctx, 'parse', lm.parse, w, budget=400_000)
            if 'wall' in (a[0], b[0]) or 'budget' in (a[0], b[0]):
                # highly ambiguous input (exponential explicit tree): not judged, counted
                ctx.count('too-ambiguous(not judged)')
                continue
            ctx.judged([ftext, sp['main'], ename, w], nontriv, feats + ['accepted' if a[0] == 'ok' else 'rejected'])
            ctx.count('inputs-judged')
            ctx.count('engine:' + ename)
            case = dict(case0, engine=ename, input=w)
            if (a[0] == 'ok') != (b[0] == 'ok'):
                ctx.violation('language-differs-from-flat-grammar:%s' % ename, case, {'flat': a if a[0] != 'ok' else 'accepted', 'modular': b if b[0] != 'ok' else 'accepted'},
                              explained(w, b))
                continue
            if a[0] != 'ok':
                continue
            try:
                sa, sb = tree_set(a[1], {}, named), tree_set(b[1], back, named)
            except R.TooMany:
                ctx.count('too-many-trees(not judged)')
                continue
            if sa != sb:
                ctx.violation('trees-differ-from-flat-grammar:%s' % ename, case, {'flat': sorted(map(str, sa))[:3], 'modular': sorted(map(str, sb))[:3]}, explained(w, b))
    if built and only_input is None:
        module_edit_step(ctx, sp, ftext, texts, tmp, imp, named, back, case0, feats, nontriv)
    for fn in sp['files']:
        os.unlink(os.path.join(tmp, fn))
    if ctx.evaluations % 13 == 0:
        ctx.sample({'flat': ftext, 'main': sp['main'], 'files': sp['files'], 'inputs': texts[:4], 'features': feats})


EDITABLE = re.compile(r'^([A-Z][A-Z0-9]*): "([a-z0-9])"$', re.M)


def module_edit_step(ctx, sp, ftext, texts, tmp, imp, named, back, case0, feats, nontriv):
    """second life of the same main text: a terminal of a module gets another body, the module file is rewritten, the
    unchanged main grammar is loaded again in this process and must now mean what the flat grammar with that edit means
    (nothing of the first load - parsed text, resolved terminal bodies - may survive)"""
    if sp.get('flat_alt'):
        ctx.count('module-edit:skipped(F-C17-1-applies-to-this-split)')
        return
    cands = []
    for fn, tx in sorted(sp['files'].items()):
        for m in EDITABLE.finditer(tx):
            line = m.group(0)
            # defined with the same body in the flat text: neither overridden nor extended from main
            if len(re.findall('^' + re.escape(line) + '$', ftext, re.M)) == 1 and m.group(1) not in ('JUNK', 'JUNK2'):
                cands.append((fn, m.group(1), m.group(2), line))
    if not cands:
        ctx.count('module-edit:no-editable-terminal')
        return
    # preferably the base of a composed terminal that stayed in main (its body was spliced into a local definition)
    pref = [c for c in cands if ('%s+ ";"' % sp['rename'].get('t:' + c[1], c[1])) in sp['main']]
    cands = pref or cands
    fn, name, old, line = cands[len(ftext) % len(cands)]
    new_line = '%s: "@"' % name
    ftext2 = re.sub('^' + re.escape(line) + '$', new_line, ftext, flags=re.M)
    files2 = dict(sp['files'])
    files2[fn] = re.sub('^' + re.escape(line) + '$', new_line, files2[fn], flags=re.M)
    with open(os.path.join(tmp, fn), 'w') as f:
        f.write(files2[fn])
    named2 = dict(named)
    named2[name] = re.compile('@')
    kw = dict(parser='lalr')
    st, lf = build(ctx, ftext2, **kw)
    if st != 'ok':
        ctx.count('module-edit:flat-not-constructible')
        return
    st, lm = build(ctx, sp['main'], **dict(kw, **imp))
    case1 = dict(case0, files=files2, flat_text=ftext2, edited=[fn, name, old], first_life_files=sp['files'])
    if st != 'ok':
        ctx.violation('module-edit:modular-grammar-fails-where-flat-constructs', case1, {'status': st, 'exc': lm if st == 'exc' else None})
        return
    ctx.count('module-edit:second-loads')
    composed_local = bool(pref)
    if composed_local:
        ctx.count('feature:module-edit-reaches-local-composed-terminal')
    for w in sorted(set(texts) | {w.replace(old, '@') for w in texts}):
        a = call(ctx, 'parse', lf.parse, w, budget=400_000)
        b = call(ctx, 'parse', lm.parse, w, budget=400_000)
        if 'wall' in (a[0], b[0]) or 'budget' in (a[0], b[0]):
            continue
        ctx.judged([ftext2, sp['main'], 'module-edit', w], nontriv or composed_local, feats + ['module-edit'])
        ctx.count('module-edit:inputs-judged')
        case = dict(case1, input=w)
        if (a[0] == 'ok') != (b[0] == 'ok'):
            ctx.violation('module-edit:language-differs-from-flat-grammar', case, {'flat': a if a[0] != 'ok' else 'accepted', 'modular': b if b[0] != 'ok' else 'accepted'})
            return
        try:
            differ = a[0] == 'ok' and tree_set(a[1], {}, named2) != tree_set(b[1], back, named2)
        except R.TooMany:
            continue
        if differ:
            ctx.violation('module-edit:trees-differ-from-flat-grammar', case, {'flat': str(a[1])[:300], 'modular': str(b[1])[:300]})
            return


def inputs_for(rng, flat):
    try:
        rg = RefGrammar(flat)
    except Exception:
        return []
    ex = gen.term_examples(rg, flat)
    out = set(gen.random_strings(rng, flat['alphabet'], 6, 5))
    for _ in range(14):
        s = gen.sample_sentence(rg, rng, ex, depth=5)
        if s is None:
            break
        w = ''.join(x for _, x in s)
        if len(w) <= 14:
            out.add(w)
            out.add(gen.mutate(rng, w, flat['alphabet']))
            if rng.random() < 0.3:
                i = rng.randint(0, len(w))
                out.add(w[:i] + '~' + w[i:])        # the character a module tried to %ignore
    return sorted(out)


def run_batch(ctx):
    rng = ctx.rng
    tmp = tempfile.mkdtemp(prefix='vlark-c17-')
    try:
        for i in range(PER_BATCH[ctx.tier]):
            if not ctx.time_left():
                ctx.count('stopped-on-time-budget')
                break
            G = gen.ebnf(rng, n_rules=rng.randint(3, 6), allow_templates=(i % 3 == 0), p_rec=0.1, p_ignore=0.3, mods_pool=('', '', '', '?', '!', '?'))
            G = gen.prune(G)
            if rng.random() < 0.4:
                add_composed_terminal(rng, G)
            sp = split(rng, G)
            if sp is None:
                ctx.count('skipped:no-split-possible')
                continue
            run_case(ctx, sp, inputs_for(rng, sp['flat']), tmp)
    finally:
        shutil.rmtree(tmp, ignore_errors=True)


def replay(ctx, case):
    tmp = tempfile.mkdtemp(prefix='vlark-c17-')
    try:
        sp = {'flat': case['flat'], 'flat_alt': case.get('flat_alt'), 'main': case['main'], 'files': case.get('first_life_files') or case['files'], 'rename': case['rename'],
              'relative': case['relative'], 'feats': set()}
        texts = [case['input']] if 'input' in case else inputs_for(ctx.rng, case['flat'])
        if 'edited' in case and 'input' in case:
            texts.append(case['input'].replace('@', case['edited'][2]))
        run_case(ctx, sp, texts, tmp)
    finally:
        shutil.rmtree(tmp, ignore_errors=True)

"""C20  ambiguity='forest': the SPPF encodes exactly the derivations; forest walks terminate and
report cycles through on_cycle."""
from ..core import STEPS, digest, canon_tree
from ..common import build, call, named_types
from ..gram import RefGrammar, LarkRulesGrammar, print_grammar
from .. import ref as R, gen
from . import c04

NBATCH = {'quick': 16, 'thorough': 64}
BUDGET_S = {'quick': 80, 'thorough': 180}
PER_BATCH = {'quick': 90, 'thorough': 1500}
FLOORS = {
    'quick': {'distinct_nontrivial': 800, 'feature:ambiguous': 700, 'feature:cyclic-grammar-walked': 100,
              'feature:on_cycle-reported': 30, 'feature:single-derivation': 500, 'judged:basic': 400,
              'judged:dynamic': 400, 'judged:dynamic_complete': 400, 'corpus': 6,
              'monitor:visitor-walks': 2000, 'monitor:count-transformer': 500},
    'thorough-unused': {'distinct_nontrivial': 12000, 'feature:ambiguous': 10000, 'feature:cyclic-grammar-walked': 1500,
                 'feature:on_cycle-reported': 400, 'corpus': 6},
}
RULE = ("cases = (grammar, Earley lexer, accepted input) parsed with ambiguity='forest'; oracle on acyclic grammars: "
        "expand(TreeForestTransformer(resolve_ambiguity=False)) == set of unshaped derivation trees enumerated by the "
        "reference over the rules the parser compiled, resolve_ambiguity=True is one of them, is_ambiguous false on a "
        "single derivation, a derivation-counting ForestTransformer returns the reference count, no on_cycle call; on "
        "cyclic grammars: every ForestVisitor/ForestTransformer walk ends within a step budget and every tree is a "
        "valid derivation.  non-trivial = >=2 derivations or a cyclic grammar; distinct by (grammar, lexer, input)")
ASSUMPTIONS = c04.ASSUMPTIONS + ["the reference enumerates derivations over Lark.rules (public compiled BNF) because the forest names helper rules"]


def make_walkers():
    from lark.parsers.earley_forest import ForestVisitor, ForestTransformer

    class Walk(ForestVisitor):
        def __init__(self, single_visit):
            super().__init__(single_visit)
            self.tokens = self.symbols = self.packed = self.cycles = self.outs = 0

        def visit_token_node(self, node):
            self.tokens += 1

        def visit_symbol_node_in(self, node):
            self.symbols += 1
            return node.children

        def visit_symbol_node_out(self, node):
            self.outs += 1

        def visit_packed_node_in(self, node):
            self.packed += 1
            return node.children

        def visit_packed_node_out(self, node):
            self.outs += 1

        def on_cycle(self, node, path):
            self.cycles += 1
            assert any(id(p) == id(node) for p in path), 'on_cycle node not on path'

    class WalkOne(ForestVisitor):
        """a visitor whose *_in hooks return ONE node instead of a list / iterator ("Returning a node(s) will schedule
        them to be visited"): it follows the first child only"""
        def __init__(self):
            super().__init__(False)
            self.cycles = 0
            self.entered = 0

        def visit_symbol_node_in(self, node):
            self.entered += 1
            for c in node.children:
                return c

        def visit_packed_node_in(self, node):
            self.entered += 1
            for c in node.children:
                return c

        def on_cycle(self, node, path):
            self.cycles += 1
    make_walkers.WalkOne = WalkOne

    class Count(ForestTransformer):
        """number of derivations: sum over packed alternatives, product over children"""
        def __init__(self):
            super().__init__()
            self.cycles = 0

        def transform_token_node(self, node):
            return 1

        def transform_packed_node(self, node, data):
            n = 1
            for d in data:
                n *= d
            return n

        def transform_symbol_node(self, node, data):
            return sum(data)

        def transform_intermediate_node(self, node, data):
            return sum(data)

        def on_cycle(self, node, path):
            self.cycles += 1

    class Ident(ForestTransformer):
        pass
    return Walk, Count, Ident


def unshaped(rg, inp, d):
    if d[0] == 't':
        _, tid, anon, s, j = d
        return ('T', rg.terms[tid].name, inp.leaf_value(s, j))
    _, name, pidx, ch = d
    p = rg.nts[name].prods[pidx]
    return ('N', p.alias or name, tuple(unshaped(rg, inp, c) for c in ch))


def input_model(rgL, lexer, w):
    if lexer == 'basic':
        terms = list(rgL.terms.values())
        lx = R.RefLexer(terms, [rgL.terms[t].lexname for t in rgL.ignore])
        toks, fail = lx.lex(w)
        if fail is not None:
            return None
        by = {T.lexname: T.tid for T in terms}
        return R.TokenInput([(by[n], v, s, e) for (n, v, s, e) in toks])
    if lexer == 'dynamic':
        return R.CharInput(rgL, w, 'pref', 'pref')
    return R.CharInput(rgL, w, 'all', 'all')


def run_case(ctx, G, text, l, rgL, cyclic, lexer, w, family, walkers):
    from lark.parsers.earley_forest import TreeForestTransformer
    Walk, Count, Ident = walkers
    case = {'grammar': G, 'lexer': lexer, 'input': w, 'family': family}
    inp = input_model(rgL, lexer, w)
    if inp is None:
        return
    ch = R.Chart(rgL, inp)
    if not ch.accepts():
        return
    try:
        ds = ch.derivations(cap=c04.CAP)
    except (R.TooMany, RecursionError):
        ctx.count('skipped-too-many-derivations')
        return
    key = [text, lexer, w]
    out = call(ctx, 'parse', l.parse, w, raw=True)
    ctx.count('judged:' + lexer)
    if out[0] != 'ok':
        if out[0] == 'wall':
            ctx.inconc('wall guard', case)
        else:
            ctx.judged(key, True)
            ctx.violation('forest-parse-fails' if out[0] == 'exc' else 'no-termination-within-step-budget', case, {'outcome': out})
        return
    root = out[1]
    feats = ['family:' + family]
    problems = []

    over_budget = []

    def walk(label, fn):
        o = call(ctx, label, fn, raw=True)
        ctx.monitor('visitor-walks')
        if o[0] == 'wall':
            ctx.inconc('wall guard in ' + label, case)
            return None
        if o[0] != 'ok':
            if o[0] == 'budget' and cyclic and label in EXPONENTIAL_WALKS:
                over_budget.append((label, o))       # judged below, once the linear walks have been seen
                return None
            problems.append((label + ('-no-termination' if o[0] == 'budget' else '-raises'), o))
            return None
        return o

    w1, w2 = Walk(False), Walk(True)
    walk('visit', lambda: w1.visit(root))
    walk('visit-single', lambda: w2.visit(root))
    w3 = make_walkers.WalkOne()
    walk('visit-returning-one-node', lambda: w3.visit(root))
    cnt = Count()
    ocnt = walk('count-transform', lambda: cnt.transform(root))
    walk('identity-transform', lambda: Ident().transform(root))
    t_all = walk('tft-all', lambda: TreeForestTransformer(resolve_ambiguity=False).transform(root))
    t_one = walk('tft-resolve', lambda: TreeForestTransformer(resolve_ambiguity=True).transform(root))
    if over_budget:
        # Walks that follow every path (no single_visit) visit a node once per path that leads to it: exponentially often on
        # the forests of cyclic grammars (a factor of ~20 per input character was measured), so a step budget cannot tell
        # "exponentially many visits" from "never".  They are excused on cyclic grammars iff the walks that are linear in the
        # forest - single_visit and the one-node walker, which go through the same cycle guards - ended on this forest.
        linear_ok = not any(m.startswith(('visit-single', 'visit-returning-one-node')) for m, _ in problems)
        for label, o in over_budget:
            if linear_ok:
                ctx.count('cyclic:%s-exceeds-budget-while-linear-walks-terminate(not judged)' % label)
            else:
                problems.append((label + '-no-termination', o))
    cycles = w1.cycles + w2.cycles + cnt.cycles + w3.cycles
    if cycles:
        feats.append('on_cycle-reported')
    if cyclic:
        feats.append('cyclic-grammar-walked')
        ctx.judged(key, True, feats)
        for lab, o in ((('tft-all', t_all), ('tft-resolve', t_one))):
            if o is None:
                continue
            try:
                trees = R.expand_ambig(canon_tree(o[1], pos=True), cap=3000)
            except R.TooMany:
                ctx.count('skipped-too-many-expansions')
                continue
            for t in trees:
                leaves = c04.validate_tree(rgL, t, 'start', w, None)
                if leaves is None or not c04.leaves_spell(rgL, leaves, w):
                    problems.append((lab + '-unsound-cyclic', t))
                    break
    else:
        ref = {unshaped(rgL, inp, d) for d in ds}
        nd = len(ds)
        ctx.judged(key, nd >= 2, feats + (['ambiguous'] if nd >= 2 else ['single-derivation']))
        if cycles:
            problems.append(('on_cycle-on-acyclic-grammar', cycles))
        if t_all is not None:
            try:
                got = {R.freeze(t) for t in R.expand_ambig(canon_tree(t_all[1]), cap=5000)}
                if got != ref:
                    problems.append(('forest-missing' if ref - got else 'forest-extra',
                                     {'ref': len(ref), 'got': len(got), 'missing': sorted(ref - got, key=repr)[:2], 'extra': sorted(got - ref, key=repr)[:2]}))
            except R.TooMany:
                ctx.count('skipped-too-many-expansions')
        try:
            if t_one is not None and R.freeze(canon_tree(t_one[1])) not in ref:
                problems.append(('resolve-not-a-derivation', canon_tree(t_one[1])))
        except R.TooMany:
            ctx.count('skipped-too-many-expansions')
        if nd == 1 and getattr(root, 'is_ambiguous', False):
            problems.append(('is_ambiguous-on-single-derivation', None))
        if ocnt is not None:
            ctx.monitor('count-transformer')
            if ocnt[1] != nd:
                problems.append(('derivation-count-differs', {'forest': ocnt[1], 'reference': nd}))
    for mech, det in problems:
        finding = None
        if mech in ('derivation-count-differs', 'is_ambiguous-on-single-derivation') and not cyclic:
            finding = classify_start_carry(ctx, G, lexer, w, nd, walkers)
        ctx.violation(mech + ':' + lexer, case, {'detail': det}, finding)


EXPONENTIAL_WALKS = ('visit', 'count-transform', 'identity-transform', 'tft-all')


def classify_start_carry(ctx, G, lexer, w, nd, walkers):
    """F-C20-1: the dynamic lexers carry *every* completed item of the start symbol across ignored
    text, so when the start symbol also occurs inside a rule, a nested occurrence is duplicated with
    two different end positions (spurious packed node, identical trees).  Mechanism test: the
    discrepancy must disappear when the same grammar gets a fresh, non-recursive start symbol."""
    if lexer == 'basic' or not G.get('ignore'):
        return None
    if not any(it == ['r', 'start'] for r in G['rules'] for a in r['alts'] for it in _flat(a['items'])):
        return None
    G2 = dict(G, rules=[gen.rule('vstart', [gen.alt([['r', 'start']])])] + G['rules'], start=['vstart'])
    st, l2 = build(ctx, print_grammar(G2), parser='earley', lexer=lexer, ambiguity='forest', start='vstart')
    if st != 'ok':
        return None
    o = call(ctx, 'parse', l2.parse, w, raw=True)
    if o[0] != 'ok':
        return None
    cnt = walkers[1]()
    o2 = call(ctx, 'count-transform', lambda: cnt.transform(o[1]), raw=True)
    if o2[0] == 'ok' and o2[1] == nd and not (nd == 1 and o[1].is_ambiguous):
        return 'F-C20-1'
    return None


def _flat(items):
    for it in items:
        yield it
        if it[0] in ('g', 'm'):
            for a in it[1]:
                yield from _flat(a['items'])
        elif it[0] == 'q':
            yield from _flat([it[1]])
        elif it[0] == 'c':
            yield from _flat(it[2])


def run_grammar(ctx, G, family, lexers, inputs):
    text = print_grammar(G)
    walkers = make_walkers()
    for lexer in lexers:
        st, l = build(ctx, text, parser='earley', lexer=lexer, ambiguity='forest')
        if st != 'ok':
            ctx.count('construction-' + st)
            continue
        rgL = LarkRulesGrammar(l)
        cyclic = rgL.is_cyclic()
        for w in inputs:
            if cyclic and len(w) > 3:
                ctx.count('cyclic-input-too-long(not run)')      # see c04: exponential trees, budget must stay a termination criterion
                continue
            run_case(ctx, G, text, l, rgL, cyclic, lexer, w, family, walkers)
    ctx.sample({'grammar': text, 'family': family, 'inputs': inputs[:5]})


def run_batch(ctx):
    rng = ctx.rng
    n = PER_BATCH[ctx.tier]
    if ctx.batch == 0:
        for name, G, lexers, inputs in c04.CORPUS:
            G = dict({'terms': [], 'ignore': [], 'start': ['start']}, **G)
            run_grammar(ctx, G, 'corpus:' + name, lexers, inputs)
            ctx.count('corpus')
    for i in range(n):
        if not ctx.time_left():
            ctx.count('stopped-on-time-budget')
            break
        G = gen.bnf_tiny(rng, max_ts=2)
        run_grammar(ctx, G, 'bnf-tiny', c04.L3, gen.all_strings(G['alphabet'], 4, cap=40, rng=rng))
        if i % 4 == 0:
            G = gen.shaped_bnf(rng)
            run_grammar(ctx, G, 'shaped', c04.L3, gen.all_strings(G['alphabet'], 5, cap=50, rng=rng))
        G = c04.dc_safe_regex_grammar(rng)
        run_grammar(ctx, G, 'regex', ('dynamic', 'dynamic_complete'), gen.random_strings(rng, G['alphabet'], 30, 6))
        G = gen.ebnf(rng, p_rec=0.3, n_rules=rng.randint(2, 4))
        rg = RefGrammar(G)
        ex = gen.term_examples(rg, G)
        ins = set(gen.random_strings(rng, G['alphabet'], 10, 5))
        for _ in range(25):
            s = gen.sample_sentence(rg, rng, ex, depth=4)
            if s is not None:
                w = ''.join(x for _, x in s)
                if len(w) <= 8:
                    ins.add(w)
        run_grammar(ctx, G, 'ebnf', c04.L3 if i % 2 else ('basic', 'dynamic'), sorted(ins))


def replay(ctx, case):
    run_grammar(ctx, case['grammar'], case['family'], (case['lexer'],), [case['input']])


selftest = c04.selftest

"""C07  basic lexer tiles the input by the documented precedence; contextual refines basic"""
import re
from ..core import STEPS, digest, canon_tree, canon_token, canon_exc
from ..common import build, call
from ..gram import Term
from .. import ref as R

NBATCH = {'quick': 16, 'thorough': 64}
BUDGET_S = {'quick': 80, 'thorough': 180}
PER_BATCH = {'quick': 90, 'thorough': 1500}
FLOORS = {
    'quick': {'distinct_nontrivial': 5000, 'feature:collision': 5000, 'feature:keyword-exception': 300, 'feature:priority-decides': 500,
              'feature:width-decides': 1000, 'feature:lex-error': 500, 'feature:bytes': 400, 'feature:regex-module': 200,
              'feature:>100-terminals': 200, 'feature:case-insensitive': 500, 'feature:refinement-judged': 800, 'feature:ignored-token': 500,
              'feature:contextual-needed': 20},
    'thorough-unused': {'distinct_nontrivial': 80000, 'feature:keyword-exception': 5000, 'feature:refinement-judged': 12000, 'feature:>100-terminals': 3000},
}
RULE = ("cases = (terminal set with strings/regexps/priorities/i-flags, text) lexed with Lark(..., lexer='basic').lex(text, "
        "dont_ignore=True); oracle: token stream (type, value, span) == reference lexer written from docs/grammar.md (documented "
        "order + keyword exception), tokens tile the text, each fullmatches its terminal, failure offset equal with "
        "UnexpectedCharacters; refinement: on statement grammars with pairwise disjoint regexp terminals, basic succeeds => "
        "contextual returns the same tree (with positions); non-trivial = text with a position where >=2 terminals match; "
        "distinct by (terminal set, options, text)")
ASSUMPTIONS = ["reference lexer RefLexer in vlark/ref.py; CPython re (or the regex module when the case uses it) on a single terminal",
               "all unbounded regexps have the same (infinite) maximal width"]

POOL_STR = ['a', 'ab', 'abc', 'b', 'bc', 'if', 'in', 'i', '=', '==', '===', 'x', 'xy', 'IF', 'If', 'else', 'el', '+', '++', 'z9', '1.2.3', '1.2', '12', '.']
POOL_RE = [r'[a-z]+', r'[a-c]+', r'[a-z][a-z0-9]*', r'a+', r'ab?', r'[ab]{2}', r'=+', r'i[a-z]', r'[a-zA-Z]+', r'x[yz]?', r'(?:ab)+',
           r'[a-z]{1,3}', r'[0-9]+', r'[a-z0-9]{2}', r'if|in', r'\w+', r'[^ =]', r'e[a-z]{3}', r'\+{1,2}', r'[A-Z]+']
ALPHA = 'abcixyz= IFel+9.12'
# verbose-flag regexps: the padding in the source is not matched text (their real width is what counts in the order)
POOL_RE_X = [r' \d \. \d ', r' [a-z]   [a-z] ', r' a  b ? ', r' =  = ', r' i  f   # keyword', r' \d + ']


def gen_terms(rng, big=False):
    n = rng.randint(2, 8)
    terms, used = [], set()
    for i in range(n):
        name = 'T%d' % i if rng.random() < 0.6 else rng.choice(['A', 'B', 'KW', 'NAME', 'ID', 'Z', 'AA']) + str(i)
        if rng.random() < 0.5:
            pat = ['s', rng.choice(POOL_STR), 'i' if rng.random() < 0.25 else '']
        elif rng.random() < 0.12:
            pat = ['x', rng.choice(POOL_RE_X), rng.choice(['x', 'x', 'ix'])]
        else:
            pat = ['x', rng.choice(POOL_RE), rng.choice(['i', 's', 'm', 'is']) if rng.random() < 0.25 else '']
        if tuple(pat) in used:
            continue
        used.add(tuple(pat))
        terms.append({'name': name, 'pat': pat, 'prio': rng.choice([0, 0, 0, 0, 1, -1, 2])})
    if big:
        # > 100 terminals: keyword family embedded in an identifier regexp + a family of regexps
        for k in range(rng.randint(60, 80)):
            pat = ['s', 'k%dw' % k, '']
            terms.append({'name': 'KW%d' % k, 'pat': pat, 'prio': 0})
        for k in range(rng.randint(45, 60)):
            terms.append({'name': 'RX%d' % k, 'pat': ['x', 'r%d[0-9]' % k, ''], 'prio': rng.choice([0, 0, 1])})
        rng.shuffle(terms)
    return terms


def to_lark(terms, ignore):
    out = ['start: (%s)+' % ' | '.join(t['name'] for t in terms if t['name'] not in ignore)]
    for t in terms:
        p = '.%d' % t['prio'] if t['prio'] else ''
        lit = ('"%s"%s' % (t['pat'][1], t['pat'][2])) if t['pat'][0] == 's' else '/%s/%s' % (t['pat'][1], t['pat'][2])
        out.append('%s%s: %s' % (t['name'], p, lit))
    for i in ignore:
        out.append('%%ignore %s' % i)
    return '\n'.join(out) + '\n'


def ref_terms(terms):
    out = []
    for i, t in enumerate(terms):
        T = Term(i, t['name'], t['pat'], t['prio'], True)
        T.lexname = t['name']
        out.append(T)
    return out


def make_text(rng, terms, big):
    if big and rng.random() < 0.7:
        parts = []
        for _ in range(rng.randint(1, 6)):
            r = rng.random()
            if r < 0.4:
                parts.append('k%dw' % rng.randint(0, 85))
            elif r < 0.7:
                parts.append('r%d%d' % (rng.randint(0, 62), rng.randint(0, 9)))
            else:
                parts.append(rng.choice(POOL_STR))
            if rng.random() < 0.3:
                parts.append(' ')
        return ''.join(parts)
    if rng.random() < 0.5:
        # concatenation of strings the terminals can spell, so that long texts lex successfully
        parts = []
        for _ in range(rng.randint(1, 6)):
            t = rng.choice(terms)
            parts.append(t['pat'][1] if t['pat'][0] == 's' else rng.choice(['ab', 'if', 'x', 'abc', 'in', 'a', '==', 'z9', 'else', 'el', '+', 'IF']))
            if rng.random() < 0.3:
                parts.append(' ')
        return ''.join(parts)
    return ''.join(rng.choice(ALPHA) for _ in range(rng.randint(1, 9)))


def lex_case(ctx, terms, ignore, text, opts, l, lx, rterms, feats0, gtext, via_lex=True):
    case = {'kind': 'lex', 'terms': terms, 'ignore': ignore, 'text': text, 'opts': opts, 'via_lex': via_lex}
    use_bytes = opts.get('use_bytes')
    arg = text.encode('ascii') if use_bytes else text

    def run():
        if via_lex:
            return [canon_token(t) for t in l.lex(arg, dont_ignore=True)]
        # Lark.lex() builds a fresh lexer on every call; the bulk of the cases reads the same token
        # stream off the tree of  start: (T0 | T1 | ...)+
        return [canon_token(t) for t in l.parse(arg).children]
    exp, fail = lx.lex(text, keep_ignored=via_lex)
    if not via_lex and not exp and fail is None:
        return
    out = call(ctx, 'lex' if via_lex else 'parse', run, raw=True)
    if via_lex and ignore and out[0] == 'ok':
        # the same instance asked again without dont_ignore: ignored terminals must be dropped (whatever it did before)
        exp2, fail2 = lx.lex(text, keep_ignored=False)
        out2 = call(ctx, 'lex', lambda: [canon_token(t) for t in l.lex(arg)], raw=True)
        ctx.count('feature:lex-after-dont_ignore')
        if fail2 is None and (out2[0] != 'ok' or [(t[1], t[2], t[3], t[4]) for t in out2[1]] != [(n, ('b:' + v) if use_bytes else v, a, b) for n, v, a, b in exp2]):
            ctx.violation('plain-lex-after-dont_ignore-lex-differs-from-reference', dict(case, second_call='lex() after lex(dont_ignore=True)'),
                          {'lark': out2[1] if out2[0] == 'ok' else out2, 'reference': exp2})
            return
    if out[0] in ('wall', 'budget'):
        ctx.inconc('guard in lex', case) if out[0] == 'wall' else ctx.violation('no-termination', case, {})
        return
    # non-triviality: a position where >= 2 terminals match
    feats = list(feats0)
    collision = False
    pos_list = [s for (_, _, s, _) in exp] + ([fail] if fail is not None else [])
    for p in pos_list:
        ms = [T for T in rterms if (lambda m: m and m.end() > p)(T.compiled(lx.gflags).match(text, p))]
        if len(ms) >= 2:
            collision = True
            order = [T for T in lx.order if T in ms]
            if (order[0].prio or 0) != (order[1].prio or 0):
                feats.append('priority-decides')
            else:
                feats.append('width-decides')
    if collision:
        feats.append('collision')
    for (n, v, s, e) in exp:
        T = next(T for T in rterms if T.lexname == n)
        if T.pat[0] == 's' and any(n in [S.lexname for S in ks] for ks in lx.keywords.values()):
            m0 = next((X for X in lx.order if (lambda m: m and m.end() > s)(X.compiled(lx.gflags).match(text, s))), None)
            if m0 is not None and m0.pat[0] == 'x':
                feats.append('keyword-exception')
        if n in ignore:
            feats.append('ignored-token')
    if fail is not None:
        feats.append('lex-error')
    ctx.judged([gtext, opts, text], collision, sorted(set(feats)))
    if out[0] == 'exc':
        e = out[1]
        if fail is None:
            ctx.violation('lexer-fails-on-lexable-text', case, {'exc': e, 'expected': exp})
        elif e['class'] != 'UnexpectedCharacters':
            ctx.violation('lex-error-wrong-class', case, {'exc': e})
        elif e.get('pos_in_stream') != fail:
            ctx.violation('lex-error-wrong-offset', case, {'exc': e, 'expected_offset': fail})
        return
    got = out[1]
    if fail is not None:
        ctx.violation('lexer-accepts-unlexable-text', case, {'expected_failure_at': fail, 'got': got})
        return
    gv = [(t[1], t[2][2:] if use_bytes else t[2], t[3], t[4]) for t in got]
    if gv != [tuple(x) for x in exp]:
        ctx.violation('token-stream-differs-from-documented-precedence', case, {'expected': exp, 'got': gv})
        return
    # tiling and pattern membership, independent of the reference stream
    pos = 0
    for (n, v, s, e) in gv:
        T = next(T for T in rterms if T.lexname == n)
        if not via_lex:
            pos = s     # ignored tokens are not in the stream; C06 checks offsets
        if s != pos or e <= s or text[s:e] != v or not T.compiled(lx.gflags).fullmatch(v):
            ctx.violation('tokens-do-not-tile-or-match', case, {'got': gv})
            return
        pos = e
    if via_lex and pos != len(text):
        ctx.violation('tokens-do-not-tile-or-match', case, {'got': gv})


def run_termset(ctx, rng, big=False):
    terms = gen_terms(rng, big)
    if len(terms) < 2:
        return
    ignore = []
    if rng.random() < 0.5:
        terms.append({'name': 'SPACE', 'pat': ['s', ' ', ''] if rng.random() < 0.6 else ['x', ' +', ''], 'prio': 0})
        ignore = ['SPACE']
    if rng.random() < 0.2 and len(terms) - len(ignore) >= 3:
        # one of the ordinary terminals is ignored too - an identifier regexp that contains keywords, or a keyword itself:
        # what is dropped is decided by the terminal that is *reported*
        ignore = ignore + [rng.choice([t['name'] for t in terms if t['name'] != 'SPACE'])]
    opts = {}
    r = rng.random()
    if r < 0.2:
        opts['use_bytes'] = True
    elif r < 0.3:
        opts['regex'] = True
    gflags = 0
    if rng.random() < 0.12:
        opts['g_regex_flags'] = re.I
        gflags = re.I
    gtext = to_lark(terms, ignore)
    st, l = build(ctx, gtext, parser='lalr', lexer='basic', **opts)
    if st != 'ok':
        ctx.count('construction-' + st)
        return
    rterms = ref_terms(terms)
    lx = R.RefLexer(rterms, ignore, gflags)
    feats0 = []
    if big:
        feats0.append('>100-terminals')
    if opts.get('use_bytes'):
        feats0.append('bytes')
    if opts.get('regex'):
        feats0.append('regex-module')
    if gflags or any('i' in t['pat'][2] for t in terms):
        feats0.append('case-insensitive')
    for k in range(60 if not big else 80):
        lex_case(ctx, terms, ignore, make_text(rng, terms, big), opts, l, lx, rterms, feats0, gtext, via_lex=(k % 10 == 0))
    ctx.sample({'grammar': gtext[:600], 'opts': {k: str(v) for k, v in opts.items()}})


# ---------------------------------------------------------------- refinement: contextual vs basic

KEYWORDS = ['if', 'then', 'print', 'let', 'in', 'end', 'do', 'i', 'fi', 'IF']


def gen_stmt_grammar(rng):
    kws = rng.sample(KEYWORDS, 4)
    ci = 'i' if rng.random() < 0.2 else ''
    name_re = rng.choice([r'[a-z]+', r'[a-zA-Z_]\w*', r'[a-z][a-z0-9]*'])
    rules = [
        'start: stmt+',
        'stmt: "%s"%s expr "%s" stmt -> cond' % (kws[0], ci, kws[1]),
        '    | NAME "=" expr ";" -> assign',
        '    | "%s" expr ";" -> out' % kws[2],
        '    | "%s" NAME "=" expr "%s" stmt -> let' % (kws[3], kws[1]),
        '?expr: expr OP atom | atom',
        '?atom: NAME | NUM | "(" expr ")"',
        'NAME%s: /%s/' % (rng.choice(['', '', '.1']), name_re),
        'NUM: /[0-9]+/',
        'OP: /[+*-]/',
        '%ignore /\\s+/',
    ]
    if rng.random() < 0.3:
        # context-dependent terminal pair that only the contextual lexer can separate (strings overlap a regexp
        # is allowed by the statement; only regexp/regexp overlap is excluded)
        rules.insert(5, '    | "@" TAG ";" -> tag')
        rules.append('TAG: "%s"' % rng.choice(['x', 'tag', kws[0]]))
    return '\n'.join(rules) + '\n', kws


def gen_program(rng, kws, depth=2):
    def expr(d):
        r = rng.random()
        if d <= 0 or r < 0.5:
            return rng.choice(['x', 'y1', 'foo', '42', '7', 'ifx', 'i', kws[0] + 'a', 'in1', kws[2]])
        if r < 0.8:
            return expr(d - 1) + rng.choice([' + ', '*', ' - ']) + expr(d - 1)
        return '(' + expr(d - 1) + ')'

    def stmt(d):
        r = rng.random()
        if d <= 0 or r < 0.4:
            return '%s = %s;' % (rng.choice(['x', 'y1', 'foo', 'ifx', 'thenx']), expr(1))
        if r < 0.6:
            return '%s %s;' % (kws[2], expr(1))
        if r < 0.8:
            return '%s %s %s %s' % (kws[0], expr(1), kws[1], stmt(d - 1))
        if r < 0.9:
            return '@ %s ;' % rng.choice(['x', 'tag', kws[0]])
        return '%s %s = %s %s %s' % (kws[3], rng.choice(['a', 'b2']), expr(1), kws[1], stmt(d - 1))
    return ' '.join(stmt(depth) for _ in range(rng.randint(1, 3)))


def refinement(ctx, rng):
    gtext, kws = gen_stmt_grammar(rng)
    opts = {'propagate_positions': True}
    if rng.random() < 0.2:
        opts['use_bytes'] = True
    sb, lb = build(ctx, gtext, parser='lalr', lexer='basic', **opts)
    sc, lc = build(ctx, gtext, parser='lalr', lexer='contextual', **opts)
    if sb != 'ok' or sc != 'ok':
        ctx.count('refinement-construction-failed')
        if (sb == 'ok') != (sc == 'ok'):
            ctx.violation('construction-differs-basic-vs-contextual', {'kind': 'refine', 'grammar': gtext, 'text': None, 'opts': opts}, {'basic': str(sb), 'contextual': str(sc)})
        return
    for _ in range(25):
        text = gen_program(rng, kws)
        if rng.random() < 0.3 and text:
            i = rng.randrange(len(text))
            text = text[:i] + rng.choice(['', ';', 'x', ' ', '=']) + text[i + 1:]
        arg = text.encode('ascii') if opts.get('use_bytes') else text
        case = {'kind': 'refine', 'grammar': gtext, 'text': text, 'opts': opts}
        ob = call(ctx, 'parse', lb.parse, arg, pos=True, meta=True)
        oc = call(ctx, 'parse', lc.parse, arg, pos=True, meta=True)
        if 'wall' in (ob[0], oc[0]):
            ctx.inconc('wall guard', case)
            continue
        if ob[0] != 'ok':
            ctx.count('refinement-basic-rejects')
            if oc[0] == 'ok':
                ctx.count('feature:contextual-needed')
            continue
        ctx.judged([gtext, opts, text], True, ['refinement-judged'] + (['bytes'] if opts.get('use_bytes') else []))
        if oc != ob:
            ctx.violation('contextual-does-not-refine-basic', case, {'basic': ob, 'contextual': oc})
    ctx.sample({'grammar': gtext, 'example': gen_program(rng, kws)})


def run_batch(ctx):
    rng = ctx.rng
    for i in range(PER_BATCH[ctx.tier]):
        if not ctx.time_left():
            ctx.count('stopped-on-time-budget')
            break
        run_termset(ctx, rng, big=(i % 6 == 0))
        if i % 2 == 0:
            refinement(ctx, rng)


def replay(ctx, case):
    if case['kind'] == 'lex':
        terms, ignore, opts = case['terms'], case['ignore'], case['opts']
        gflags = opts.get('g_regex_flags', 0) or 0
        gtext = to_lark(terms, ignore)
        st, l = build(ctx, gtext, parser='lalr', lexer='basic', **opts)
        rterms = ref_terms(terms)
        lx = R.RefLexer(rterms, ignore, gflags)
        lex_case(ctx, terms, ignore, case['text'], opts, l, lx, rterms, [], gtext, case.get('via_lex', True))
    else:
        opts = case['opts']
        sb, lb = build(ctx, case['grammar'], parser='lalr', lexer='basic', **opts)
        sc, lc = build(ctx, case['grammar'], parser='lalr', lexer='contextual', **opts)
        if case['text'] is None:
            if (sb == 'ok') != (sc == 'ok'):
                ctx.violation('construction-differs-basic-vs-contextual', case, {})
            return
        arg = case['text'].encode('ascii') if opts.get('use_bytes') else case['text']
        ob = call(ctx, 'parse', lb.parse, arg, pos=True, meta=True)
        oc = call(ctx, 'parse', lc.parse, arg, pos=True, meta=True)
        ctx.judged([case['grammar'], case['text']], True)
        if ob[0] == 'ok' and oc != ob:
            ctx.violation('contextual-does-not-refine-basic', case, {'basic': ob, 'contextual': oc})


def selftest(ctx):
    ts = ref_terms([{'name': 'IF', 'pat': ['s', 'if', ''], 'prio': 0}, {'name': 'NAME', 'pat': ['x', '[a-z]+', ''], 'prio': 0},
                    {'name': 'EQ', 'pat': ['s', '==', ''], 'prio': 0}, {'name': 'A', 'pat': ['s', '=', ''], 'prio': 0}, {'name': 'WS', 'pat': ['s', ' ', ''], 'prio': 0}])
    lx = R.RefLexer(ts, ['WS'])
    toks, fail = lx.lex('if ifx === i')
    assert fail is None and [t[0] for t in toks] == ['IF', 'NAME', 'EQ', 'A', 'NAME'], toks
    assert lx.lex('if $')[1] == 3
    ctx.monitor('reference-selftest')

"""C13  interactive parser: feed == parse, forks are independent, accepts() is exact, resume == parse
of the remaining input."""
import copy as _copy
from ..core import STEPS, digest, canon_tree, canon_exc, canon_token
from ..common import build, call, lark_names
from ..gram import RefGrammar, print_grammar
from .. import ref as R, gen
from ..lalr_ref import from_lark_rules, TooBig, Diverges, END
from .c08 import ws_variant

NBATCH = {'quick': 16, 'thorough': 64}
BUDGET_S = {'quick': 80, 'thorough': 180}
PER_BATCH = {'quick': 300, 'thorough': 5000}
FLOORS = {
    'quick': {'distinct_nontrivial': 1500, 'fork-trees': 1200, 'handles-finished': 8000, 'results-rechecked-after-later-operations': 40000,
              'accepts-observations': 8000, 'accepts==reference': 3000, 'resume-cases': 1500, 'resume-on-forks': 3000, 'feature:terminal-names-that-are-not-upper-case': 40, 'feature:empty-node-positioned-by-a-later-reduction': 20, 'on_error-cases': 800,
              'feature:fork:copy': 2000, 'feature:fork:as_immutable': 2000, 'feature:fork:immutable-feed': 4000, 'feature:fork:as_mutable': 800,
              'feature:fork:copy.copy': 500, 'feature:diverging-forks-share-reduced-subtree': 1500, 'feature:embedded-transformer': 300,
              'feature:inlined-left-recursion': 300, 'feature:placeholders': 300, 'feature:error-in-branch': 500},
    'thorough-unused': {'distinct_nontrivial': 30000, 'fork-trees': 25000, 'handles-finished': 150000, 'resume-cases': 25000},
}
RULE = ("cases = fork trees over one LALR parser: handles created by parse_interactive / copy() / copy.copy / as_immutable / "
        "as_mutable / ImmutableInteractiveParser.feed_token, each following its own token sequence (sequences diverge after a "
        "shared prefix, forks taken after every prefix incl. mid-reduction-chain), accepts()/choices() called at random "
        "points, handles finished in random order; oracle: every handle's feed_eof result (tree with all token coordinates "
        "and meta, or the UnexpectedToken) == parse() of its own text; results already obtained are re-canonicalised after "
        "every later operation and must not change; accepts() == {t : a trial feed of t on a fork succeeds} and == the "
        "reference LALR automaton's trial feeds (reduced grammars); resume: for text = prefix+BAD+suffix the parser taken "
        "from the UnexpectedToken (and Lark.parse(on_error=...)) must finish with the result of parsing prefix+blanks+suffix; "
        "non-trivial = fork tree with >=2 handles that diverge after sharing >=1 reduced subtree; distinct by (grammar, options, operation list)")
ASSUMPTIONS = ["expected results come from Lark.parse on the handle's own text (C02/C03 judge parse itself)",
               "tokens fed to a handle are those the lexer produces for that handle's text, so coordinates are comparable",
               "embedded transformers used here are pure and return fresh mutable lists"]


def make_transformer(G):
    """embedded transformer with one pure callback per user-visible rule / alias, each returning a fresh
    mutable list (so that state shared between forks would show)"""
    from lark import Transformer
    names = set()
    for r in G['rules']:
        if not r['name'].startswith('_') and not r.get('params'):
            names.add(r['name'])
        for a in r['alts']:
            if a.get('alias'):
                names.add(a['alias'])

    def mk(name):
        def cb(self, children):
            return [name] + list(children)
        return cb
    return type('ListT', (Transformer,), {n: mk(n) for n in names})()


class Handle:
    __slots__ = ('ip', 'imm', 'plan', 'text', 'idx', 'dead', 'id')

    def __init__(self, ip, imm, plan, text, idx, hid):
        self.ip, self.imm, self.plan, self.text, self.idx, self.dead, self.id = ip, imm, plan, text, idx, False, hid


def lex_plan(lb, text):
    try:
        return list(lb.lex(text))
    except Exception:
        return None


def expected_for(ctx, l, cache, text):
    r = cache.get(text)
    if r is None:
        r = cache[text] = call(ctx, 'parse', l.parse, text, pos=True, meta=True)
    return r


def strip_interactive(exc):
    d = dict(exc)
    d.pop('accepts', None)       # raised by ip.feed_token: no interactive parser attached
    return d


def run_tree(ctx, l, lb, ref, names, texts, rng, feats, case0, expcache):
    """one fork tree.  texts: pool of candidate texts (accepted sentences and near misses)"""
    from lark import Token
    ops = []
    hid = [0]
    termnames = {t.name for t in l.terminals} | {END}      # not guessed from the spelling: "__" and m__NAME are terminals too
    base_text = rng.choice(texts)
    plan = lex_plan(lb, base_text)
    if plan is None:
        return
    handles = []

    def new(ip, imm, plan, text, idx):
        h = Handle(ip, imm, plan, text, idx, hid[0])
        hid[0] += 1
        handles.append(h)
        return h
    new(l.parse_interactive(base_text), False, plan, base_text, 0)
    finished = []        # (handle id, result object or exception canon, first canonical form, expected)
    case = dict(case0, ops=ops, base_text=base_text)
    shared_subtree = [False]
    diverged = [False]

    def recheck():
        for hid_, obj, first, _ in finished:
            if obj is None:
                continue
            ctx.count('results-rechecked-after-later-operations')
            now = canon_tree(obj, True, True)
            if now != first:
                ctx.violation('finished-result-changed-by-later-operation-on-a-relative', case,
                              {'handle': hid_, 'before': first, 'after': now})
                return False
        return True

    def finish(h, on_copy):
        ops.append(['finish', h.id, on_copy])
        ip = h.ip
        if on_copy:
            ip = ip.copy() if not h.imm else ip
        last = h.plan[h.idx - 1] if h.idx else None
        end = last.end_pos if last is not None else 0
        text = h.text[:end]
        exp = expected_for(ctx, l, expcache, text)
        try:
            r = ip.feed_eof(last)
            if h.imm or isinstance(r, type(ip)):
                r = r.result if hasattr(r, 'result') and isinstance(r, type(h.ip)) else r
            got = ['ok', canon_tree(r, True, True)]
        except Exception as e:
            r = None
            got = ['exc', strip_interactive(canon_exc(e))]
        ctx.count('handles-finished')
        e2 = exp if exp[0] != 'exc' else ['exc', strip_interactive(exp[1])]
        if got != e2:
            ctx.violation('handle-result-differs-from-parse-of-its-own-tokens', case, {'handle': h.id, 'text': text, 'interactive': got, 'parse': e2})
            return False
        finished.append((h.id, r, got[1] if got[0] == 'ok' else None, exp))
        if not on_copy:
            h.dead = True
        return True

    def observe(h):
        ops.append(['accepts', h.id])
        ip = h.ip
        try:
            acc = set(ip.accepts())
            row = {k for k in ip.choices() if k in termnames}
        except Exception as e:
            ctx.violation('accepts()-raises', case, {'handle': h.id, 'exc': repr(e)[:200]})
            return False
        ctx.count('accepts-observations')
        trial = set()
        for t in row:
            c = ip.copy() if not h.imm else ip
            try:
                c.feed_token(Token(t, ''))
                trial.add(t)
            except Exception as e:
                if type(e).__name__ != 'UnexpectedToken':
                    ctx.violation('trial-feed-raises-other-exception', case, {'handle': h.id, 'terminal': t, 'exc': repr(e)[:200]})
                    return False
        if acc != trial:
            ctx.violation('accepts()-differs-from-trial-feeds-on-forks', case, {'handle': h.id, 'accepts': sorted(acc), 'trial': sorted(trial)})
            return False
        if ref is not None:
            try:
                stack = [ref.start_state['start']]
                for t in h.plan[:h.idx]:
                    stack = ref.feed(stack, t.type)
                    if stack is None:
                        break
                if stack is not None:
                    racc = ref.accepts(stack)
                    ctx.count('accepts==reference')
                    if racc != acc:
                        ctx.violation('accepts()-differs-from-reference-automaton', case, {'handle': h.id, 'accepts': sorted(acc), 'reference': sorted(racc)})
                        return False
            except Diverges:
                pass
        return True

    def step(h):
        """feed the next planned token"""
        t = h.plan[h.idx]
        ops.append(['feed', h.id, h.idx])
        try:
            if h.imm:
                ip2 = h.ip.feed_token(t)
                ctx.count('feature:fork:immutable-feed')
                if rng.random() < 0.5:
                    h.dead = True        # drop the parent handle (it stays valid, we just stop using it)
                nh = new(ip2, True, h.plan, h.text, h.idx + 1)
                if len(ip2.parser_state.value_stack) < h.idx + 1:
                    shared_subtree[0] = True
                return True
            h.ip.feed_token(t)
            h.idx += 1
            if len(h.ip.parser_state.value_stack) < h.idx:
                shared_subtree[0] = True
            return True
        except Exception as e:
            # expected iff parse of the text up to and including this token fails at this token
            text = h.text[:t.end_pos]
            exp = expected_for(ctx, l, expcache, h.text)
            got = strip_interactive(canon_exc(e))
            h.dead = True
            ctx.count('feature:error-in-branch')
            if exp[0] != 'exc' or strip_interactive(exp[1]).get('token') != got.get('token') or exp[1]['class'] != got['class'] or \
                    (case0['opts']['lexer'] == 'basic' and exp[1].get('expected') != got.get('expected')):
                ctx.violation('feed_token-error-differs-from-parse', case, {'handle': h.id, 'text': h.text, 'interactive': got, 'parse': exp})
                return False
            return True

    def fork(h):
        kind = rng.choice(['copy', 'copy', 'as_immutable', 'as_immutable', 'copy.copy', 'as_mutable'] if not h.imm else ['as_mutable', 'as_mutable', 'copy', 'as_immutable'])
        ops.append(['fork', h.id, kind])
        if kind == 'copy':
            ip2, imm = h.ip.copy(), h.imm
        elif kind == 'copy.copy':
            ip2, imm = _copy.copy(h.ip), h.imm
        elif kind == 'as_immutable':
            ip2, imm = h.ip.as_immutable(), True
        else:
            if not h.imm:
                ip2, imm = h.ip.as_immutable().as_mutable(), False
            else:
                ip2, imm = h.ip.as_mutable(), False
        ctx.count('feature:fork:' + kind)
        plan2, text2 = h.plan, h.text
        if rng.random() < 0.7:
            # diverge: same consumed prefix, different continuation
            end = h.plan[h.idx - 1].end_pos if h.idx else 0
            other = rng.choice(texts)
            oplan = lex_plan(lb, other)
            if oplan:
                k = rng.randrange(len(oplan) + 1)
                suffix = other[oplan[k].start_pos:] if k < len(oplan) else ''
                t2 = h.text[:end] + ' ' + suffix
                p2 = lex_plan(lb, t2)
                if p2 is not None and [canon_token(x) for x in p2[:h.idx]] == [canon_token(x) for x in h.plan[:h.idx]]:
                    plan2, text2 = p2, t2
                    diverged[0] = True
        new(ip2, imm, plan2, text2, h.idx)
        return True

    nops = rng.randint(8, 40)
    for _ in range(nops):
        live = [h for h in handles if not h.dead]
        if not live:
            break
        h = rng.choice(live)
        r = rng.random()
        if r < 0.5 and h.idx < len(h.plan):
            ok = step(h)
        elif r < 0.68 and len(handles) < 25:
            ok = fork(h)
        elif r < 0.82:
            ok = observe(h)
        elif r < 0.92:
            ok = finish(h, on_copy=True)
        else:
            ok = finish(h, on_copy=False)
        if not ok or not recheck():
            return
    live = [h for h in handles if not h.dead]
    rng.shuffle(live)
    for h in live:
        # run the rest of the plan for some, finish all
        while h.idx < len(h.plan) and not h.dead and rng.random() < 0.8 and not h.imm:
            if not step(h):
                return
        if h.dead:
            continue
        if not finish(h, on_copy=False) or not recheck():
            return
    nt = len(handles) >= 2 and diverged[0] and shared_subtree[0]
    if nt:
        ctx.count('feature:diverging-forks-share-reduced-subtree')
    ctx.judged([case0['grammar_text'], case0['opts'], ops], nt, feats)
    ctx.count('fork-trees')
    if ctx.evaluations % 50 == 1:
        ctx.sample({'grammar': case0['grammar_text'], 'opts': case0['opts'], 'base_text': base_text, 'ops': ops[:40], 'handles': len(handles)})


def run_resume(ctx, l, lb, texts, alphabet, rng, feats, case0, expcache):
    """text = prefix + BAD + suffix, where prefix+suffix is a sentence: the parser state attached to the error must
    finish with the result of parsing prefix + blanks + suffix"""
    good = rng.choice(texts)
    plan = lex_plan(lb, good)
    if not plan:
        return
    k = rng.randrange(len(plan) + 1)
    at = plan[k].start_pos if k < len(plan) else len(good)
    bad = rng.choice(alphabet)
    if bad in ' \n':
        return
    text = good[:at] + bad + ' ' + good[at:]
    blank = good[:at] + ' ' * (len(bad) + 1) + good[at:]
    exp_blank = expected_for(ctx, l, expcache, blank)
    orig = expected_for(ctx, l, expcache, text)
    if orig[0] != 'exc' or orig[1]['class'] != 'UnexpectedToken' or orig[1].get('token_type') == END:
        return              # the inserted token did not cause an UnexpectedToken at itself (still a sentence, or a lexing error)
    if orig[1]['token'][3] != at:
        return              # the error is somewhere else (e.g. earlier): not the situation under test
    case = dict(case0, resume={'text': text, 'equivalent': blank})
    # (a) resume_parse on the interactive parser attached to the exception
    rest = [t for t in (lex_plan(lb, blank) or []) if t.start_pos > at]
    try:
        l.parse(text)
        return
    except Exception as e:
        ip = getattr(e, 'interactive_parser', None)
        if ip is None:
            ctx.violation('UnexpectedToken-without-interactive-parser', case, {})
            return
        # reference 1: feed the remaining tokens by hand on a fork of the error state
        manual_ip = ip.copy()
        try:
            last = ip.lexer_thread.state.last_token
            for t in rest:
                manual_ip.feed_token(t)
                last = t
            manual = ['ok', canon_tree(manual_ip.feed_eof(last), True, True)]
        except Exception as e2:
            manual = ['exc', strip_interactive(canon_exc(e2))]
        # did the parser reduce on the strength of the bad lookahead?  if not, the state is the one after the prefix
        pre_ip = l.parse_interactive(text)
        for t in plan[:k]:
            pre_ip.feed_token(t)
        same_state = list(pre_ip.parser_state.state_stack) == list(ip.parser_state.state_stack)
        # forks of the error state resume independently: each reads its own copy of the rest of the input, in any order
        handles = {'original': ip, 'copy()': ip.copy(), 'as_immutable()': ip.as_immutable()}
        order = rng.sample(sorted(handles), 3)
        res = {}
        for name in order:
            try:
                res[name] = ['ok', canon_tree(handles[name].resume_parse(), True, True)]
            except Exception as e2:
                res[name] = ['exc', strip_interactive(canon_exc(e2))]
        got = res['original']
        ctx.count('resume-on-forks', 2)
        for name in order:
            if res[name] != got:
                ctx.judged([case0['grammar_text'], case0['opts'], 'resume-forks', text], True, feats + ['resume'])
                ctx.violation('resume_parse-on-forks-of-one-error-state-disagree', case, {'order': order, 'results': res})
                return
    ctx.count('resume-cases')
    ctx.judged([case0['grammar_text'], case0['opts'], 'resume', text], True, feats + ['resume'])
    if got != manual and case0['opts']['lexer'] != 'basic' and got[0] == manual[0] == 'exc':
        # the contextual lexer raises the UnexpectedToken itself, with its own expected set (see F-C08-1): compare the rest
        got[1].pop('expected', None)
        manual[1].pop('expected', None)
    if got != manual:
        ctx.violation('resume_parse-differs-from-feeding-the-remaining-tokens', case, {'resume': got, 'manual_feed_from_the_same_state': manual})
        return
    if same_state:
        ctx.count('resume==parse-of-blanked-text')
        eb = exp_blank if exp_blank[0] == 'ok' else ['exc', strip_interactive(exp_blank[1])]
        if got[0] == 'exc' and eb[0] == 'exc' and got[1].get('token_type') == END == eb[1].get('token_type'):
            # $END borrows the coordinates of the last token the lexer produced, which is the skipped one here
            got, eb = ['exc', dict(got[1], token=None, pos_in_stream=None, line=None, column=None)], ['exc', dict(eb[1], token=None, pos_in_stream=None, line=None, column=None)]
        if got != eb and not (got[0] == 'exc' and eb[0] == 'exc' and case0['opts']['lexer'] != 'basic' and got[1].get('token') == eb[1].get('token')):
            ctx.violation('resume_parse-differs-from-parse-of-remaining-input', case, {'resume': got, 'parse_of_equivalent_text': exp_blank})
            return
    else:
        ctx.count('resume:parser-had-reduced-on-the-bad-lookahead')
        return
    # (b) the same through Lark.parse(on_error=...)
    got2 = call(ctx, 'parse(on_error)', l.parse, text, on_error=lambda e: True, pos=True, meta=True, budget=2_000_000)
    if got2[0] == 'budget':
        ctx.violation('parse(on_error)-does-not-end', case, {'budget': got2[1]})
        return
    ctx.count('on_error-cases')
    if exp_blank[0] == 'ok' and got2 != exp_blank:
        ctx.violation('parse(on_error)-differs-from-parse-of-remaining-input', case, {'on_error': got2, 'parse_of_equivalent_text': exp_blank})


def sentences(rng, G, n):
    rg = RefGrammar(G)
    ex = gen.term_examples(rg, G)
    out = set()
    for _ in range(n * 3):
        s = gen.sample_sentence(rg, rng, ex, depth=rng.choice([3, 5, 7]))
        if s is None:
            break
        w = rng.choice([' ', ' ', '\n', '  ']).join(x for _, x in s)
        if 0 < len(w) <= 60:
            out.add(w)
        if len(out) >= n:
            break
    return sorted(out)


def run_grammar(ctx, G, rng, n_trees, n_resume, lexer, use_transformer, only=None):
    G = ws_variant(gen.prune(G))
    if rng.random() < 0.3 and 'odd-names' not in G:
        # anonymous literals that lark names after themselves: terminal names that are not upper-case ("__", "_1")
        import copy as _copy
        G = _copy.deepcopy(G)
        G['odd-names'] = True
        for r in G['rules']:
            if r['name'] == 'start':
                r['alts'] = r['alts'] + [gen.alt([gen.LIT('__'), gen.LIT('_1'), ['r', 'start']]), gen.alt([gen.LIT('__')])]
        G['alphabet'] = list(G['alphabet']) + ['_', '1']
        ctx.count('feature:terminal-names-that-are-not-upper-case')
    text = print_grammar(G)
    opts = {'parser': 'lalr', 'lexer': lexer, 'propagate_positions': True}
    kw = dict(opts)
    if use_transformer:
        kw['transformer'] = make_transformer(G)
    st, l = build(ctx, text, **kw)
    if st != 'ok':
        ctx.count('skipped:construction-' + st)
        return
    st, lb = build(ctx, text, parser='lalr', lexer='basic')
    if st != 'ok':
        return
    ref = None
    st, le = build(ctx, text, parser='earley', lexer='basic', priority='normal')
    if st == 'ok':
        try:
            ref = from_lark_rules(le.rules, ['start'])
            from .c02 import reduced
            if not reduced(ref):
                ref = None
        except TooBig:
            ref = None
    sents = sentences(rng, G, 10)
    if not sents:
        ctx.count('skipped:no-sentences')
        return
    texts = list(sents) + [gen.mutate(rng, s, [a for a in G['alphabet'] if a not in ' \n']) for s in sents[:4]]
    feats = ['lexer:' + lexer]
    if use_transformer:
        feats.append('embedded-transformer')
    if any(r['name'].startswith('_') for r in G['rules']):
        feats.append('inlined-left-recursion')
    if '[' in text.replace('"["', ''):
        feats.append('placeholders')
    for f in feats:
        ctx.count('feature:' + f)
    case0 = {'grammar': G, 'grammar_text': text, 'opts': dict(opts, transformer=use_transformer)}
    expcache = {}
    for _ in range(n_trees):
        run_tree(ctx, l, lb, ref, None, texts, rng, feats, case0, expcache)
    if not use_transformer:
        for _ in range(n_resume):
            run_resume(ctx, l, lb, sents, [a for a in G['alphabet']], rng, feats, case0, expcache)


RICH = {'rules': [
    gen.rule('start', [gen.alt([['q', ['r', 'stmt'], '+', 0, 0]])]),
    gen.rule('stmt', [gen.alt([['t', 'X'], gen.LIT('='), ['r', 'expr'], gen.LIT(';')], 'assign'), gen.alt([gen.LIT('k'), ['r', '_args'], gen.LIT(';')], 'show'),
                      gen.alt([gen.LIT('{'), ['q', ['r', 'stmt'], '*', 0, 0], gen.LIT('}')], 'block')]),
    gen.rule('_args', [gen.alt([['r', '_args'], gen.LIT(','), ['r', 'expr']]), gen.alt([['r', 'expr']])]),
    gen.rule('expr', [gen.alt([['r', 'expr'], gen.LIT('+'), ['r', 'term']], 'add'), gen.alt([['r', 'term']])], mods='?'),
    gen.rule('term', [gen.alt([['r', 'term'], gen.LIT('*'), ['r', 'atom']], 'mul'), gen.alt([['r', 'atom']])], mods='?'),
    gen.rule('atom', [gen.alt([['t', 'N']]), gen.alt([['t', 'X']]), gen.alt([gen.LIT('('), ['r', 'expr'], gen.LIT(')')]),
                      gen.alt([gen.LIT('['), ['m', [gen.alt([['r', '_args']])]], gen.LIT(']')], 'list'), gen.alt([gen.LIT('-'), ['r', 'atom']], 'neg'),
                      gen.alt([gen.LIT('?'), ['m', [gen.alt([['t', 'X']])]], ['m', [gen.alt([['t', 'N']])]], gen.LIT('!')], 'opt')], mods='?'),
], 'terms': [gen.term('N', ['x', '[0-9]', ''], ex=['7', '3']), gen.term('X', ['s', 'x', ''], ex=['x'])], 'ignore': [], 'start': ['start'],
    'alphabet': list('7x=;k{},+*()[]-?!')}


# a tree that matched nothing (y) waits on the value stack and gets its position from the ?-rule that is reduced later:
# forks that continue differently after ")" must each see their own span for it
EMPTY_NODE = {'rules': [
    gen.rule('start', [gen.alt([['q', ['r', 'x'], '+', 0, 0]])]),
    gen.rule('x', [gen.alt([gen.LIT('('), ['r', 'y'], gen.LIT(')')]), gen.alt([gen.LIT('('), ['r', 'y'], gen.LIT(')'), gen.LIT('!')]),
                   gen.alt([gen.LIT('['), ['r', 'y'], ['r', 'y'], gen.LIT(']'), ['m', [gen.alt([gen.LIT('!'), gen.LIT('!')])]]])], mods='?'),
    gen.rule('y', [gen.alt([])]),
], 'terms': [], 'ignore': [], 'start': ['start'], 'alphabet': list('()![]')}


def run_batch(ctx):
    rng = ctx.rng
    quick = ctx.tier == 'quick'
    for i in range(PER_BATCH[ctx.tier]):
        if not ctx.time_left():
            ctx.count('stopped-on-time-budget')
            break
        lexer = rng.choice(['basic', 'contextual'])
        if i % 9 == 4:
            G = EMPTY_NODE
            ctx.count('feature:empty-node-positioned-by-a-later-reduction')
        elif i % 3 == 0:
            G = RICH
        else:
            G = gen.lalr_friendly(rng, p_perturb=0.1)
        run_grammar(ctx, G, rng, 6, 6, lexer, use_transformer=(i % 4 == 1))


def replay(ctx, case):
    # fork trees are generated from the PRNG: re-run the same family on the same grammar with many trees
    G = case['grammar']
    o = case['opts']
    G2 = dict(G)
    G2['terms'] = [t for t in G['terms'] if t['name'] != 'WSN']
    G2['ignore'] = []
    G2['alphabet'] = [a for a in G['alphabet'] if a not in ' \n']
    for k in range(6):
        run_grammar(ctx, G2, ctx.rng, 40, 40, o['lexer'], o.get('transformer', False))

"""C04  ambiguity='explicit' enumerates exactly all derivations (acyclic: set equality with the
reference enumeration; cyclic: termination + soundness)."""
from ..core import STEPS, digest, canon_tree
from ..common import build, call, basic_tokens, named_types
from ..gram import RefGrammar, print_grammar, duplicate_empty_alternatives, colliding_optionals
from .. import ref as R, gen
from .c01 import model as c01_model

NBATCH = {'quick': 16, 'thorough': 64}
BUDGET_S = {'quick': 80, 'thorough': 180}
PER_BATCH = {'quick': 90, 'thorough': 1500}
FLOORS = {
    'quick': {'distinct_nontrivial': 800, 'feature:ambiguous': 800, 'feature:cyclic-sound': 100,
              'feature:ambig-through-inline': 20, 'feature:ambig-through-expand1': 20,
              'feature:terminal-internal-ambiguity': 30, 'judged:basic': 500, 'judged:dynamic': 500,
              'judged:dynamic_complete': 500, 'corpus': 8, 'monitor:collapse_ambiguities': 500},
    'thorough-unused': {'distinct_nontrivial': 12000, 'feature:ambiguous': 12000, 'feature:cyclic-sound': 1500,
                 'feature:ambig-through-inline': 300, 'feature:ambig-through-expand1': 300,
                 'feature:terminal-internal-ambiguity': 400, 'corpus': 6},
}
RULE = ("cases = (grammar, Earley lexer, keep_all_tokens, maybe_placeholders, accepted input); oracle: set of trees "
        "obtained by expanding every _ambig node == {shape(D) : D derivation} from the reference enumerator (acyclic "
        "grammars), or every expanded tree validates as a derivation of the input (cyclic); CollapseAmbiguities must "
        "agree with the independent expander; non-trivial = input with >=2 distinct shaped derivations (or a cyclic "
        "grammar case that was validated); distinct by (grammar, options, lexer, input)")
ASSUMPTIONS = ["reference chart + derivation enumerator + documented shaping rules in vlark/ref.py",
               "inputs with more than 300 derivations are skipped and counted",
               "dynamic_complete cases use terminals/ignores for which the known C01 findings cannot apply (preferred match == longest, single-char ignores)"]

CAP = 300


def validate_tree(rg, t, name, w, named):
    """cyclic grammars (plain BNF families, keep_all_tokens): is canonical tree t a derivation tree of
    rule `name`?  returns list of leaf tokens or None"""
    if t is None or t[0] != 'N':
        return None
    kids = t[2]
    for p in rg.nts[name].prods:
        if len(p.rhs) != len(kids) or t[1] != (p.alias or rg.nts[name].display):
            continue
        leaves = []
        ok = True
        for s, k in zip(p.rhs, kids):
            if s[0] == 'N':
                sub = validate_tree(rg, k, s[1], w, named)
                if sub is None:
                    ok = False
                    break
                leaves.extend(sub)
            else:
                T = rg.terms[s[1]]
                if k is None or k[0] != 'T' or not T.compiled().fullmatch(k[2]) or (T.named and k[1] != T.name):
                    ok = False
                    break
                leaves.append(k)
        if ok:
            return leaves
    return None


def leaves_spell(rg, leaves, w):
    """tokens (with positions) are in order, match the text, and the gaps are ignorable"""
    pos = 0
    ign = [rg.terms[t].compiled() for t in rg.ignore]

    def skippable(a, b):
        if a == b:
            return True
        seen = {a}
        st = [a]
        while st:
            p = st.pop()
            for rx in ign:
                for q in R.match_lengths(rx, w, p, 'all'):
                    if q <= b and q not in seen:
                        seen.add(q)
                        st.append(q)
        return b in seen
    for k in leaves:
        s, e = k[3], k[4]
        if s < pos or w[s:e] != k[2] or not skippable(pos, s):
            return False
        pos = e
    return skippable(pos, len(w))


def shaping_features(G):
    f = set()
    for r in G['rules']:
        if r['name'].startswith('_'):
            f.add('has-inline')
        if '?' in r.get('mods', ''):
            f.add('has-expand1')
    return f


def forest_phase_terminates(ctx, text, lexer, opts, w):
    from lark.parsers.earley_forest import ForestVisitor
    st, lf = build(ctx, text, parser='earley', lexer=lexer, ambiguity='forest', **opts)
    if st != 'ok':
        return False
    out = call(ctx, 'parse', lf.parse, w, raw=True)
    if out[0] != 'ok':
        return False

    class Count(ForestVisitor):
        def __init__(self):
            super().__init__()
            self.n = 0

        def visit_symbol_node_in(self, node):
            self.n += 1
            return node.children

        def visit_packed_node_in(self, node):
            self.n += 1
            return node.left, node.right
    v = Count()
    r = call(ctx, 'forest-walk', v.visit, out[1], raw=True)
    return r[0] == 'ok'


def run_case(ctx, G, text, rg, l, lexer, opts, w, family, cyclic, named):
    case = {'grammar': G, 'lexer': lexer, 'opts': opts, 'input': w, 'family': family}
    member, inp = c01_model(rg, lexer, w)
    if not member:
        return
    try:
        ch = R.Chart(rg, inp)
        ds = ch.derivations(cap=CAP)
    except R.TooMany:
        ctx.count('skipped-too-many-derivations')
        return
    except RecursionError:
        ctx.count('skipped-reference-recursion')
        return
    sh = R.Shaper(rg, inp, opts['keep_all_tokens'], opts['maybe_placeholders'])
    ref = {R.freeze(sh.shape(d)) for d in ds}
    out = call(ctx, 'parse', l.parse, w, raw=True)
    ctx.count('judged:' + lexer)
    if out[0] == 'wall':
        ctx.inconc('wall guard', case)
        return
    if out[0] == 'budget':
        ctx.judged([text, lexer, opts, w], True)
        if cyclic and forest_phase_terminates(ctx, text, lexer, opts, w):
            # the parse proper (chart + forest) ends and a walk over the forest ends: what does not fit the budget is the
            # multiplication of the alternatives into explicit trees, whose number is exponential for cyclic grammars
            # (61 forest nodes kept the tree builder busy for minutes in the thorough tier).  A step budget cannot tell
            # "exponentially many trees" from "never": counted, not judged.  A hang of the parser or of the forest walk
            # itself is still a violation (and C20 walks every forest).
            ctx.count('cyclic:explicit-trees-exceed-budget-while-forest-and-walk-terminate(not judged)')
            return
        ctx.violation('no-termination-within-step-budget', case, {'budget': out[1]})
        return
    if out[0] == 'exc':
        ctx.violation('exception-on-member', case, {'exc': out[1]})
        ctx.judged([text, lexer, opts, w], True)
        return
    tree = out[1]
    try:
        can = canon_tree(tree, pos=cyclic)
        got_list = R.expand_ambig(can, cap=5000)
    except R.TooMany:
        ctx.count('skipped-too-many-expansions')
        return
    feats = ['family:' + family]
    if cyclic:
        # soundness only, on plain BNF with all tokens kept
        bad = None
        for t in got_list:
            leaves = validate_tree(rg, t, 'start', w, named)
            if leaves is None:
                bad = ('not-a-derivation-tree', t)
                break
            if not leaves_spell(rg, leaves, w):
                bad = ('leaves-do-not-spell-input', t)
                break
        ctx.judged([text, lexer, opts, w], True, feats + ['cyclic-sound'])
        if bad:
            ctx.violation('explicit-unsound-cyclic:' + lexer, case, {'why': bad[0], 'tree': bad[1]})
        return
    got = {R.erase_anon_types(t, named) for t in got_list}
    ambiguous = len(ref) >= 2
    if ambiguous:
        feats.append('ambiguous')
        sf = shaping_features(G)
        if 'has-inline' in sf:
            feats.append('ambig-through-inline')
        if 'has-expand1' in sf:
            feats.append('ambig-through-expand1')
        if lexer == 'dynamic_complete' and len({tuple((x[3], x[4]) for x in leaves_of(d)) for d in ds}) > 1:
            feats.append('terminal-internal-ambiguity')
    if len(ds) >= 2:
        feats.append('multi-derivation')
    ctx.judged([text, lexer, opts, w], ambiguous, feats)
    if got != ref:
        missing = sorted(ref - got, key=repr)[:2]
        extra = sorted(got - ref, key=repr)[:2]
        mech = 'explicit-missing' if missing else 'explicit-extra'
        ctx.violation(mech + ':' + lexer, case, {'ref_count': len(ref), 'got_count': len(got), 'missing': missing, 'extra': extra})
        return
    # secondary: the library's own expander agrees with the independent one
    from lark.visitors import CollapseAmbiguities
    from lark import Tree
    if isinstance(tree, Tree):
        o2 = call(ctx, 'collapse', lambda: CollapseAmbiguities().transform(tree), raw=True)
        ctx.monitor('collapse_ambiguities')
        if o2[0] != 'ok':
            ctx.violation('collapse-ambiguities-fails', case, {'outcome': o2})
        else:
            got2 = {R.erase_anon_types(canon_tree(t), named) for t in o2[1]}
            if got2 != ref:
                ctx.violation('collapse-ambiguities-differs', case, {'ref_count': len(ref), 'got_count': len(got2)})


def leaves_of(d):
    if d[0] == 't':
        return [d]
    out = []
    for c in d[3]:
        out.extend(leaves_of(c))
    return out


def run_grammar(ctx, G, family, lexers, inputs, optsets):
    text = print_grammar(G)
    if duplicate_empty_alternatives(G):
        ctx.count('skipped-duplicate-empty-alternatives')
        return
    if colliding_optionals(G):
        # two alternatives of one rule spell the same symbol sequence (a literal counts as the named terminal it coincides
        # with): lark raises the documented "Rules defined twice" or silently keeps one of them - either way the set of
        # derivations is not what the AST says, so tree-level oracles do not judge such grammars
        ctx.count('skipped-colliding-alternatives')
        return
    rg = RefGrammar(G)
    cyclic = rg.is_cyclic()
    named = named_types(rg)
    plain = family in ('bnf-tiny', 'shaped', 'regex') or family.startswith('corpus:plain')
    for lexer in lexers:
        for opts in optsets:
            if cyclic:
                if not plain:
                    ctx.count('skipped-cyclic-nonplain')
                    continue
                opts = dict(opts, keep_all_tokens=True)
            st, l = build(ctx, text, parser='earley', lexer=lexer, ambiguity='explicit', **opts)
            if st != 'ok':
                ctx.count('construction-' + st)
                continue
            for w in inputs:
                if cyclic and len(w) > 3:
                    # the explicit tree of a cyclic grammar grows exponentially with the input (6M nodes at length 4 are
                    # real): longer inputs would turn the step budget from a termination criterion into a cost limit
                    ctx.count('cyclic-input-too-long(not run)')
                    continue
                run_case(ctx, G, text, rg, l, lexer, opts, w, family, cyclic, named)
    ctx.sample({'grammar': text, 'family': family, 'inputs': inputs[:5], 'cyclic': cyclic})


L3 = ('basic', 'dynamic', 'dynamic_complete')
a, b, c = gen.LIT('a'), gen.LIT('b'), gen.LIT('c')
_r = lambda n: ['r', n]
CORPUS = [
    ('plain-EE', {'rules': [gen.rule('start', [gen.alt([_r('start'), _r('start')]), gen.alt([a])])]}, L3, ['a', 'aa', 'aaa', 'aaaa', 'aaaaa']),
    ('dangling-else', {'rules': [gen.rule('start', [gen.alt([gen.LIT('i'), _r('start')]), gen.alt([gen.LIT('i'), _r('start'), gen.LIT('e'), _r('start')]), gen.alt([gen.LIT('x')])])]},
     L3, ['iixex', 'iiixexex', 'ixex', 'x']),
    ('intermediate', {'rules': [gen.rule('start', [gen.alt([_r('p'), _r('q'), _r('s')])]), gen.rule('p', [gen.alt([a]), gen.alt([a, a])]), gen.rule('q', [gen.alt([a]), gen.alt([a, a]), gen.alt([])]), gen.rule('s', [gen.alt([a]), gen.alt([])])]},
     L3, ['a', 'aa', 'aaa', 'aaaa', 'aaaaa']),
    ('nullable-ambig', {'rules': [gen.rule('start', [gen.alt([_r('n'), _r('n'), a])]), gen.rule('n', [gen.alt([]), gen.alt([a])])]}, L3, ['a', 'aa', 'aaa']),
    ('below-inline', {'rules': [gen.rule('start', [gen.alt([_r('_i'), b])]), gen.rule('_i', [gen.alt([_r('x'), _r('x')])]), gen.rule('x', [gen.alt([a]), gen.alt([a, a]), gen.alt([])])]}, L3, ['ab', 'aab', 'aaab', 'b']),
    ('below-expand1', {'rules': [gen.rule('start', [gen.alt([_r('e'), b])]), gen.rule('e', [gen.alt([_r('x'), _r('y')]), gen.alt([_r('y')])], mods='?'), gen.rule('x', [gen.alt([a])]), gen.rule('y', [gen.alt([a]), gen.alt([a, a]), gen.alt([])])]}, L3, ['ab', 'aab', 'aaab', 'b']),
    ('placeholder-ambig', {'rules': [gen.rule('start', [gen.alt([_r('x'), _r('x')])]), gen.rule('x', [gen.alt([gen.LIT('x'), ['m', [gen.alt([['t', 'B']])]]]), gen.alt([gen.LIT('x'), gen.LIT('x')])])], 'terms': [gen.term('B', ['s', 'b', ''])]},
     L3, ['xx', 'xbx', 'xxx', 'xxxx', 'xbxb']),
    ('ignore-absorbable-both-sides', {'rules': [gen.rule('start', [gen.alt([['t', 'P'], ['t', 'Q']])], mods='!')],
                                      'terms': [gen.term('P', ['x', 'p ?', ''], ex=['p', 'p ']), gen.term('Q', ['x', ' ?q', ''], ex=['q', ' q']), gen.term('WS1', ['x', r'\s', ''], ex=[' '])],
                                      'ignore': ['WS1']}, ('dynamic', 'dynamic_complete'), ['pq', 'p q', 'p  q', 'p   q']),
    ('ignore-absorbable-rule-before', {'rules': [gen.rule('start', [gen.alt([['r', 'a'], ['t', 'Q']])], mods='!'), gen.rule('a', [gen.alt([gen.LIT('p')]), gen.alt([gen.LIT('p ')])], mods='!')],
                                       'terms': [gen.term('Q', ['x', ' ?q', ''], ex=['q', ' q']), gen.term('WS1', ['x', r'\s', ''], ex=[' '])],
                                       'ignore': ['WS1']}, ('dynamic', 'dynamic_complete'), ['pq', 'p q', 'p  q']),
    ('plain-cyclic', {'rules': [gen.rule('start', [gen.alt([_r('start')]), gen.alt([_r('start'), _r('start')]), gen.alt([a])])]}, L3, ['a', 'aa', 'aaa']),
    ('plain-cyclic-null', {'rules': [gen.rule('start', [gen.alt([_r('n'), _r('start'), _r('n')]), gen.alt([a])]), gen.rule('n', [gen.alt([]), gen.alt([b])])]}, L3, ['a', 'ba', 'bab', 'ab']),
]
OPTSETS = [{'keep_all_tokens': True, 'maybe_placeholders': True}, {'keep_all_tokens': False, 'maybe_placeholders': True},
           {'keep_all_tokens': False, 'maybe_placeholders': False}]


def dc_safe_regex_grammar(rng):
    """regex family restricted so that lexer='dynamic_complete' is exact (see C01 findings)"""
    G = gen.regex_grammar(rng)
    if G['ignore'] and G['ignore'][0] != 'WS1':
        G['terms'] = [t for t in G['terms'] if t['name'] not in G['ignore']] + [gen.term('WS1', ['x', r'\s', ''], ex=[' '])]
        G['ignore'] = ['WS1']
    return G


def run_batch(ctx):
    rng = ctx.rng
    n = PER_BATCH[ctx.tier]
    if ctx.batch == 0:
        for name, G, lexers, inputs in CORPUS:
            G = dict({'terms': [], 'ignore': [], 'start': ['start']}, **G)
            run_grammar(ctx, G, 'corpus:' + name, lexers, inputs, OPTSETS[:2])
            ctx.count('corpus')
    for i in range(n):
        if not ctx.time_left():
            ctx.count('stopped-on-time-budget')
            break
        G = gen.bnf_tiny(rng, max_ts=2)
        run_grammar(ctx, G, 'bnf-tiny', L3, gen.all_strings(G['alphabet'], 4, cap=40, rng=rng), [rng.choice(OPTSETS[:2])])
        if i % 4 == 0:
            G = gen.shaped_bnf(rng)
            run_grammar(ctx, G, 'shaped', L3, gen.all_strings(G['alphabet'], 5, cap=50, rng=rng), [OPTSETS[0]])
        G = dc_safe_regex_grammar(rng)
        run_grammar(ctx, G, 'regex', ('dynamic', 'dynamic_complete'), gen.random_strings(rng, G['alphabet'], 30, 6), [OPTSETS[0]])
        G = gen.ebnf(rng, p_rec=0.3, n_rules=rng.randint(2, 4))
        rg = RefGrammar(G)
        ex = gen.term_examples(rg, G)
        ins = set(gen.random_strings(rng, G['alphabet'], 10, 5))
        for _ in range(25):
            s = gen.sample_sentence(rg, rng, ex, depth=4)
            if s is not None:
                w = ''.join(x for _, x in s)
                if len(w) <= 8:
                    ins.add(w)
        run_grammar(ctx, G, 'ebnf', L3 if i % 2 else ('basic', 'dynamic'), sorted(ins), [rng.choice(OPTSETS)])


def replay(ctx, case):
    run_grammar(ctx, case['grammar'], case['family'], (case['lexer'],), [case['input']], [case['opts']])


def selftest(ctx):
    G = {'rules': [gen.rule('start', [gen.alt([_r('start'), _r('start')]), gen.alt([a])])], 'terms': [], 'ignore': [], 'start': ['start']}
    rg = RefGrammar(G)
    for n, cat in [(1, 1), (2, 1), (3, 2), (4, 5), (5, 14)]:
        inp, _ = basic_tokens(rg, 'a' * n)
        assert len(R.Chart(rg, inp).derivations()) == cat
    ctx.monitor('reference-selftest')

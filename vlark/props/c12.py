"""C12  the grammar cache is only an optimisation, whatever the state of the cache file."""
import os, io, sys, json, pickle, shutil, tempfile, subprocess, hashlib
from ..core import STEPS, digest, canon_tree, canon_exc, outcome, wall_guard, WallTimeout
from .. import gen
from ..gram import print_grammar, RefGrammar

USE_STEPS = False
NBATCH = {'quick': 16, 'thorough': 32}
FLOORS_THOROUGH = {'exhaustive-truncation-files-completed': 12}
BUDGET_S = {'quick': 80, 'thorough': 600}
LEVEL = 'fault_enumeration'
FLOORS = {
    'quick': {'distinct_nontrivial': 1200, 'fault:truncate': 1500, 'fault:bitflip-header': 250, 'fault:bitflip-usedfiles': 100, 'fault:bitflip-payload': 500,
              'fault:killed-writer': 16, 'fault:foreign-payload': 16, 'history-steps': 300, 'cache-served-confirmed': 30, 'auto-named-constructions': 60, 'auto-named-served': 8,
              'recovered-file-valid': 1500, 'step:imported-file-edited': 16, 'step:second-imported-file-edited': 12, 'step:packaged-modules': 30, 'step:opened-from-another-directory': 25, 'step:option-changed': 100, 'step:version-changed': 16,
              'step:other-python-version': 8, 'step:grammar-changed': 40, 'loader-got-past-header': 600},
    'thorough-unused': {'distinct_nontrivial': 20000, 'fault:truncate': 20000, 'fault:bitflip-payload': 3000, 'fault:killed-writer': 200, 'history-steps': 3000,
                 'exhaustive-truncation-files': 16},
}
RULE = ("cases = (grammar with an imported file, option set, fault or history step) on one cache path; faults: every k-th "
        "truncation offset (quick: every 24th + every offset of the header + every 3rd of the used-files prologue; thorough: every offset), bit "
        "flips in header / used-files / payload, foreign payload behind own header, writer killed after n bytes (real "
        "subprocess, os._exit inside write); history steps: other grammar, each option changed, imported file edited / "
        "restored, lark.__version__ changed, file written by python 3.11; oracle: constructor does not raise, behaviour "
        "vector (canonical outcomes incl. positions on a fixed input set + terminal table) == uncached build of the same "
        "grammar/options, a parser built for a different key is never served, afterwards the file is valid (next "
        "construction is cache-served - load_grammar not called - and still equal); non-trivial = fault after which the "
        "loader got past the header check, or step that changes the expected behaviour; distinct by (grammar, options, fault)")
ASSUMPTIONS = ["bit flips are sampled; truncation offsets are enumerated completely in the thorough tier",
               "cache-served is observed by wrapping lark.lark.load_grammar (count of calls) and cross-checked with the file not being rewritten",
               "a killed writer leaves some prefix of the file (validated on real killed subprocesses), after which prefixes are enumerated directly",
               "deleting an imported file is not judged (an uncached build cannot succeed then)"]

LIB = 'item: WORD | NUMBER\nWORD: /[a-z]+/\nNUMBER: /[0-9]+/\n'
LIB2 = 'item: WORD | NUMBER | "<" WORD ">"\nWORD: /[a-z]+/\nNUMBER: /[0-9]+/\n'
# three files are recorded in the cache file, in this order: lib.lark, lib2.lark, lark's own common.lark (a package resource).
# A "library text" is lib.lark's text, optionally followed by NUL and lib2.lark's text.
LIBB = 'SEP: ","\n'
LIBB2 = 'SEP: "," | "|"\n'
G_MAIN = '''start: stmt+
stmt: "let" NAME "=" expr ";" -> let
    | expr ";"
?expr: expr "+" term -> add
    | term
?term: item | "(" expr ")" | list
list: "[" [expr (SEP expr)*] "]"
NAME: /[a-z_]+/
%import .lib.item
%import .lib.WORD
%import .lib.NUMBER
%import .lib2.SEP
%import common.WS
%ignore WS
'''
G_ALT = G_MAIN.replace('"let"', '"var"')
INPUTS = ['let x = 1 + a;', 'a + [1, b, [c]];', 'let y = (a);\n  b + 1;', '[];', 'let = 1;', 'a +;', 'a b;', '(a;', '', 'let x = [1,];', '1 + 2 + 3;\nlet z = q;', '$', 'a; <b>;', '[a | b, c];']
OPTION_SETS = [
    {}, {'keep_all_tokens': True}, {'propagate_positions': True}, {'maybe_placeholders': False}, {'lexer': 'basic'}, {'start': ['start', 'expr']},
    {'g_regex_flags': 2}, {'debug': True}, {'priority': 'invert'}, {'priority': None}, {'priority': 'normal'}, {'maybe_placeholders': True}, {'strict': False, 'ordered_sets': False}, {'cache_grammar': True},
]


def behaviour(l, inputs=INPUTS):
    out = []
    starts = l.options.start
    for w in inputs:
        for s in starts:
            out.append(outcome(l.parse, w, start=s, pos=True, meta=True))
    out.append(sorted((t.name, t.pattern.to_regexp(), t.priority, sorted(t.pattern.flags)) for t in l.terminals))
    out.append(sorted(str(r) for r in l.rules))
    return json.loads(json.dumps(out, default=repr))       # plain JSON data, comparable across processes


class Env:
    """one temp dir: grammar file location (for relative imports), cache path, load_grammar call counter"""
    def __init__(self, ctx, dir=None):
        import lark.lark as lk
        self.ctx = ctx
        if dir and dir.startswith(tempfile.gettempdir()) and not os.path.exists(dir):
            # replay: the cache file records the absolute paths of the imported files, so a damaged file is only "the
            # same file" if the directory is called what it was called
            os.makedirs(dir)
            self.dir = dir
        else:
            self.dir = tempfile.mkdtemp(prefix='vlark-c12-')
        self.cache = os.path.join(self.dir, 'grammar.cache')
        self.lib = os.path.join(self.dir, 'lib.lark')
        self.main = os.path.join(self.dir, 'main.lark')
        self.write_lib(LIB)
        self.lk = lk
        self.calls = 0
        self._orig = getattr(lk, 'load_grammar', None)
        self.monitor_ok = self._orig is not None
        if self.monitor_ok and not getattr(self._orig, '_vlark', False):
            env = self

            def counted(*a, **kw):
                COUNTER[0] += 1
                return ORIG[0](*a, **kw)
            counted._vlark = True
            ORIG[0] = self._orig
            lk.load_grammar = counted
        self.uncached = {}

    def write_lib(self, text):
        a, _, b = text.partition('\0')
        with open(self.lib, 'w') as f:
            f.write(a)
        with open(os.path.join(self.dir, 'lib2.lark'), 'w') as f:
            f.write(b or LIBB)

    def write_pkg(self, text):
        """the same two modules inside an importable package, for FromPackageLoader"""
        import sys
        a, _, b = text.partition('\0')
        self.pkg = 'vpkg_' + ''.join(c if c.isalnum() else '_' for c in os.path.basename(self.dir))
        d = os.path.join(self.dir, self.pkg, 'grammars')
        os.makedirs(d, exist_ok=True)
        open(os.path.join(self.dir, self.pkg, '__init__.py'), 'a').close()
        with open(os.path.join(d, 'lib.lark'), 'w') as f:
            f.write(a)
        with open(os.path.join(d, 'lib2.lark'), 'w') as f:
            f.write(b or LIBB)
        if self.dir not in sys.path:
            sys.path.insert(0, self.dir)

    def pkg_loader(self):
        from lark.load_grammar import FromPackageLoader
        return FromPackageLoader(self.pkg, ('grammars',))

    def close(self):
        import sys
        if self.dir in sys.path:
            sys.path.remove(self.dir)
        shutil.rmtree(self.dir, ignore_errors=True)

    def construct(self, g, opts, cache=True, extra=None):
        """-> ('ok', lark, served) | ('exc', canon) | ('wall',)"""
        from lark import Lark
        opts = {k: v for k, v in opts.items() if not k.startswith('_')}       # _keys only label the expectation
        kw = dict(parser='lalr', source_path=self.main, **opts)
        if not cache:
            kw.pop('cache_grammar', None)       # only legal together with cache
        open_path = None
        if extra:
            kw.update(extra)
            open_path = kw.pop('_open', None)
        if open_path:
            kw.pop('source_path', None)          # Lark.open derives it from the file
        if cache:
            kw['cache'] = self.cache
        before_calls = COUNTER[0]
        try:
            st0 = os.stat(self.cache)
            before = (st0.st_mtime_ns, st0.st_size, st0.st_ino)
        except OSError:
            before = None
        try:
            with wall_guard(60):
                l = Lark.open(open_path, **kw) if open_path else Lark(g, **kw)
        except WallTimeout:
            return ('wall',)
        except Exception as e:
            return ('exc', canon_exc(e))
        served = None
        if self.monitor_ok:
            served = COUNTER[0] == before_calls
        try:
            st1 = os.stat(self.cache)
            after = (st1.st_mtime_ns, st1.st_size, st1.st_ino)
        except OSError:
            after = None
        untouched = before is not None and before == after
        if served is None:
            served = untouched
        elif cache and served != untouched:
            self.ctx.count('served-vs-file-untouched-disagree')
        return ('ok', l, served)

    def construct_isolated(self, g, opts, extra=None, timeout=15, mem=4 << 30):
        """first construction on a damaged file, in a forked child with a memory limit and a wall-clock limit (a
        damaged pickle that still loads can ask for absurd amounts of memory or time inside C code, where neither a
        step budget nor a signal handler can stop it).  -> ('ok', behaviour, served) | ('exc', canon) | ('killed', why)"""
        import resource, select, signal, time
        r, w = os.pipe()
        pid = os.fork()
        if pid == 0:
            try:
                os.close(r)
                resource.setrlimit(resource.RLIMIT_AS, (mem, mem))
                c = self.construct(g, opts, extra=extra)
                if c[0] == 'ok':
                    try:
                        with wall_guard(timeout):
                            out = ('ok', behaviour(c[1]), c[2])
                    except MemoryError:
                        out = ('killed', 'MemoryError while using the parser')
                else:
                    out = c
                os.write(w, json.dumps(out, default=repr).encode())
            except MemoryError:
                os.write(w, json.dumps(('killed', 'MemoryError')).encode())
            except BaseException as e:
                os.write(w, json.dumps(('killed', 'child: %r' % e)).encode())
            finally:
                os._exit(0)
        os.close(w)
        buf = b''
        t0 = time.time()
        why = None
        while True:
            left = timeout + 20 - (time.time() - t0)
            if left <= 0:
                why = 'timeout'
                break
            rl, _, _ = select.select([r], [], [], left)
            if not rl:
                why = 'timeout'
                break
            chunk = os.read(r, 1 << 20)
            if not chunk:
                break
            buf += chunk
        os.close(r)
        if why:
            os.kill(pid, signal.SIGKILL)
        _, status = os.waitpid(pid, 0)
        if why or not buf:
            return ('killed', why or 'child died, status %d' % status)
        out = json.loads(buf.decode())
        return tuple(out)

    def expected(self, g, opts, libtext, extra_key='', extra=None):
        key = digest([g, sorted(opts.items()), libtext, extra_key])
        r = self.uncached.get(key)
        if r is None:
            c = self.construct(g, opts, cache=False, extra=extra)
            r = self.uncached[key] = ('ok', behaviour(c[1])) if c[0] == 'ok' else c
        return r


COUNTER = [0]
ORIG = [None]


def regions(data):
    """(end of header line, end of used-files pickle) of a cache file"""
    h = data.index(b'\n') + 1
    f = io.BytesIO(data)
    f.seek(h)
    pickle.load(f)
    return h, f.tell()


def judge(ctx, env, g, opts, libtext, case, fault_kind, nontriv, expect_served=None, classify=None, extra=None, extra_key='', info=None):
    """construct with the cache file in its current state; compare with the uncached build; then check
    that the file left behind is valid (next construction cache-served and equal)."""
    exp = env.expected(g, opts, libtext, extra_key, extra)
    case = dict(case, env_dir=env.dir)
    isolated = fault_kind is not None and (fault_kind.startswith('bitflip') or fault_kind == 'foreign-payload')
    if isolated:
        got = env.construct_isolated(g, opts, extra=extra)
        ctx.count('constructions-in-isolated-child')
        if got[0] == 'killed':
            ctx.judged([g, sorted(opts.items()), libtext, case.get('fault')], nontriv, ['fault:' + fault_kind])
            ctx.count('fault:' + fault_kind)
            ctx.violation('constructor-or-parser-exhausts-time/memory:' + fault_kind, case, {'why': got[1]}, classify(True) if classify else None)
            if os.path.exists(env.cache):
                os.unlink(env.cache)
            return classify is not None
    else:
        got = env.construct(g, opts, extra=extra)
    ctx.judged([g, sorted(opts.items()), libtext, case.get('fault')], nontriv, ['fault:' + fault_kind] if fault_kind else [])
    if fault_kind:
        ctx.count('fault:' + fault_kind)
    if got[0] == 'wall':
        ctx.inconc('wall guard in constructor', case)
        return False
    if exp[0] != 'ok':
        # the grammar/options are invalid without a cache: the cached constructor must fail the same way
        if got[0] == 'ok' or got[1]['class'] != exp[1]['class']:
            ctx.violation('cached-constructor-differs-on-invalid-grammar', case, {'uncached': exp[1], 'cached': got[1] if got[0] != 'ok' else 'constructed'})
            return False
        return True
    if got[0] == 'exc':
        ctx.violation('constructor-raises-because-of-cache-file:' + (fault_kind or 'history'), case, {'exc': got[1]})
        return False
    _, l, served = got
    if info is not None:
        info['served'] = served
    b = behaviour(l) if not isolated else l
    if b != exp[1]:
        fid = classify(served) if classify else None
        diff = [i for i, (x, y) in enumerate(zip(b, exp[1])) if x != y]
        ctx.violation('behaviour-differs-from-uncached-build:' + (fault_kind or 'history'), case,
                      {'served_from_cache': served, 'first_difference_index': diff[:3], 'cached': b[diff[0]] if diff else None,
                       'uncached': exp[1][diff[0]] if diff else None}, fid)
        if fid is None:
            return False
    if expect_served is False and served:
        ctx.violation('served-a-parser-cached-for-a-different-key:' + (fault_kind or 'history'), case, {})
        return False
    if expect_served is True:
        if served:
            ctx.count('cache-served-confirmed')
        else:
            ctx.count('cache-not-used-although-valid')
    if isolated and served:
        # the damaged file is still there (it was accepted): loading it again here, outside the child, proves nothing
        os.unlink(env.cache)
        return True
    # the file left behind must be valid
    got2 = env.construct(g, opts, extra=extra)
    if got2[0] != 'ok':
        ctx.violation('second-construction-fails:' + (fault_kind or 'history'), case, {'outcome': got2[1] if got2[0] == 'exc' else got2[0]})
        return False
    if not got2[2] and not served:
        # rebuilt, wrote a file, and the next construction rebuilt again: the file written is not valid
        ctx.violation('file-left-behind-is-not-a-valid-cache:' + (fault_kind or 'history'), case, {})
        return False
    b2 = behaviour(got2[1])
    if b2 != exp[1] and not (classify and classify(got2[2])):
        ctx.violation('behaviour-differs-on-next-construction:' + (fault_kind or 'history'), case, {'served_from_cache': got2[2]})
        return False
    if got2[2]:
        ctx.count('recovered-file-valid')
    return True


def fresh_file(env, g, opts):
    """write a complete cache file for (g, opts) and return its bytes"""
    if os.path.exists(env.cache):
        os.unlink(env.cache)
    c = env.construct(g, opts)
    if c[0] != 'ok' or not os.path.exists(env.cache):
        return None
    with open(env.cache, 'rb') as f:
        return f.read()


def put(env, data):
    with open(env.cache, 'wb') as f:
        f.write(data)


def faults_for(ctx, env, g, opts, libtext, rng, tier, exhaustive):
    env.write_lib(libtext)
    data = fresh_file(env, g, opts)
    if data is None:
        ctx.inconc('could not write a cache file', {'grammar': g, 'opts': opts})
        return
    h, u = regions(data)
    n = len(data)
    base = {'grammar': g, 'opts': opts, 'lib': libtext}
    # complete file: must be served
    judge(ctx, env, g, opts, libtext, dict(base, fault=['complete']), None, False, expect_served=True)
    # ---- truncations
    if exhaustive:
        offs = list(range(n))
    else:
        offs = sorted(set(range(0, h + 8)) | set(range(h, u + 8, 3)) | set(range(0, n, 24)) | {n - 1, n - 2, h, h - 1, u, u - 1, u + 1} | set(rng.sample(range(n), 20)))
        offs = [o for o in offs if 0 <= o < n]
    for k in offs:
        if not ctx.time_left():
            ctx.count('stopped-on-time-budget')
            return
        put(env, data[:k])
        if k > h:
            ctx.count('loader-got-past-header')
        judge(ctx, env, g, opts, libtext, dict(base, fault=['truncate', k, n]), 'truncate', k > h, expect_served=False)
    if exhaustive:
        ctx.count('exhaustive-truncation-files-completed')
        ctx.count('exhaustive-truncation-offsets', n)
    # ---- bit flips
    nflips = {'quick': 40, 'thorough': 200}[tier]
    for region, lo, hi, cnt in (('header', 0, h, nflips // 2), ('usedfiles', h, u, max(2, nflips // 5)), ('payload', u, n, nflips)):
        for _ in range(cnt):
            k = rng.randrange(lo, hi)
            b = rng.randrange(8)
            mod = bytearray(data)
            mod[k] ^= 1 << b
            put(env, bytes(mod))
            if region != 'header':
                ctx.count('loader-got-past-header')
            cls = (lambda served: 'F-C12-1' if served else None) if region == 'payload' else None
            import base64
            judge(ctx, env, g, opts, libtext, dict(base, fault=['bitflip', region, k, b], file_b64=base64.b64encode(bytes(mod)).decode()),
                  'bitflip-' + region, region != 'header', classify=cls)
    # ---- foreign payload behind own header
    other = fresh_file(env, G_ALT if g != G_ALT else G_MAIN, opts)
    if other is not None:
        ho, uo = regions(other)
        put(env, data[:h] + other[ho:])
        ctx.count('loader-got-past-header')
        judge(ctx, env, g, opts, libtext, dict(base, fault=['foreign-payload']), 'foreign-payload', True,
              classify=lambda served: 'F-C12-1' if served else None)
        # whole file of the other grammar: header differs, must be rebuilt
        put(env, other)
        judge(ctx, env, g, opts, libtext, dict(base, fault=['file-of-other-grammar']), 'file-of-other-grammar', True, expect_served=False)
        # the other grammar's file with its header line shortened / emptied / extended (a loader that compares
        # prefixes would take it for its own)
        for k in (0, 1, 32, 63):
            put(env, other[:k] + other[ho - 1:])
            judge(ctx, env, g, opts, libtext, dict(base, fault=['other-grammar-header-shortened', k]), 'header-shortened', True, expect_served=False)
        put(env, data[:h - 1] + b'00' + other[ho - 1:])
        judge(ctx, env, g, opts, libtext, dict(base, fault=['other-grammar-own-header-extended']), 'header-shortened', True, expect_served=False)


KILL_SCRIPT = r'''
import sys, os
sys.path.insert(0, sys.argv[1])
import lark.lark as lk
from lark import Lark
limit = int(sys.argv[4])
real_open = lk.FS.open
class W:
    def __init__(self, f): self.f = f; self.n = 0
    def write(self, b):
        for i in range(len(b)):
            if self.n >= limit:
                if sys.argv[5] == 'flush': self.f.flush()
                os._exit(9)
            self.f.write(b[i:i+1]); self.n += 1
        return len(b)
    def __enter__(self): return self
    def __exit__(self, *a): self.f.close()
    def __getattr__(self, k): return getattr(self.f, k)
class FS2:
    exists = lk.FS.exists
    @staticmethod
    def open(name, mode='r', **kw):
        f = real_open(name, mode, **kw)
        return W(f.__enter__() if not hasattr(f, 'write') else f) if 'w' in mode else f
lk.FS = FS2
Lark(open(sys.argv[2]).read(), parser='lalr', source_path=sys.argv[2], cache=sys.argv[3])
'''


def killed_writer(ctx, env, g, opts, libtext, rng, count):
    env.write_lib(libtext)
    data = fresh_file(env, g, opts)
    if data is None or opts:
        return
    with open(env.main, 'w') as f:
        f.write(g)
    script = os.path.join(env.dir, 'kill.py')
    with open(script, 'w') as f:
        f.write(KILL_SCRIPT)
    for _ in range(count):
        if not ctx.time_left():
            return
        limit = rng.randrange(0, len(data))
        mode = rng.choice(['flush', 'noflush'])
        os.unlink(env.cache)
        p = subprocess.run([sys.executable, script, os.environ.get('VLARK_REPO', '/repo'), env.main, env.cache, str(limit), mode],
                           capture_output=True, timeout=120, env=dict(os.environ, PYTHONHASHSEED='0'))
        if p.returncode != 9:
            ctx.inconc('killed-writer subprocess did not die as planned', {'rc': p.returncode, 'err': p.stderr.decode()[-300:]})
            continue
        left = open(env.cache, 'rb').read() if os.path.exists(env.cache) else None
        ctx.count('killed-writer-left:%s' % ('nothing' if left is None else 'empty' if not left else 'partial'))
        if left is not None and len(left) > limit:
            ctx.violation('killed-writer-left-more-than-written', {'grammar': g, 'opts': opts, 'lib': libtext, 'fault': ['killed-writer', limit, mode]}, {'left': len(left)})
        if left:
            ctx.count('loader-got-past-header' if len(left) > 65 else 'killed-in-header')
        judge(ctx, env, g, opts, libtext, {'grammar': g, 'opts': opts, 'lib': libtext, 'fault': ['killed-writer', limit, mode]}, 'killed-writer',
              bool(left) and len(left) > 65, expect_served=False)


def edit_terminals_upper(t):
    if t.name == 'NAME':
        t.pattern.value = '[A-Z_]+'


class AlwaysAccept:
    always_accept = ('UNUSED',)

    def process(self, stream):
        return stream


def auto_named(ctx, env, rng):
    """cache=True: lark names the file itself (temp dir, user name, key hash, python version).  Constructions with the
    same key must be served from it, a different option set or grammar must not be, behaviour always equals uncached."""
    import tempfile
    from lark import Lark
    d = os.path.join(env.dir, 'autotmp')
    shutil.rmtree(d, ignore_errors=True)
    os.makedirs(d, exist_ok=True)
    env.write_lib(LIB)
    old = tempfile.tempdir
    tempfile.tempdir = d
    try:
        seen = {}
        for i in range(rng.randint(4, 8)):
            g = rng.choice([G_MAIN, G_MAIN, G_ALT])
            opts = dict(rng.choice(OPTION_SETS[:8]))
            key = digest([g, sorted(opts.items())])
            exp = env.expected(g, opts, LIB)
            before = COUNTER[0]
            try:
                with wall_guard(60):
                    l = Lark(g, parser='lalr', source_path=env.main, cache=True, **opts)
            except Exception as e:
                ctx.judged(['auto', g, sorted(opts.items()), i], True, [])
                if exp[0] == 'ok':
                    ctx.violation('constructor-raises-with-cache=True', {'auto_named': [g == G_MAIN, opts]}, {'exc': canon_exc(e)})
                continue
            served = COUNTER[0] == before
            ctx.judged(['auto', g, sorted(opts.items()), i], True, [])
            ctx.count('auto-named-constructions')
            if exp[0] == 'ok' and behaviour(l) != exp[1]:
                ctx.violation('behaviour-differs-from-uncached-build:cache=True', {'auto_named': [g == G_MAIN, opts]}, {'served_from_cache': served})
            elif served and key not in seen:
                ctx.violation('served-a-parser-cached-for-a-different-key:cache=True', {'auto_named': [g == G_MAIN, opts]}, {'files': sorted(os.listdir(d))})
            elif key in seen and served:
                ctx.count('auto-named-served')
            seen[key] = True
    finally:
        tempfile.tempdir = old


def history(ctx, env, rng):
    """sequence of constructions on one path with changing grammar / options / imported file / version"""
    import lark
    libtext = LIB
    env.write_lib(libtext)
    if os.path.exists(env.cache):
        os.unlink(env.cache)
    cur, cur_extra = None, ''       # what the file on disk was last written for
    steps = []
    for i in range(rng.randint(6, 12)):
        kind = rng.choice(['same', 'grammar', 'option', 'option', 'lib-edit', 'lib2-edit', 'version', 'unhashable', 'import-paths', 'package', 'package', 'open-from-dir', 'open-from-dir'])
        g = G_MAIN
        opts = {}
        extra = None
        extra_key = ''
        ver = None
        if kind == 'grammar':
            g = rng.choice([G_ALT, G_MAIN])
        elif kind == 'option':
            opts = dict(rng.choice(OPTION_SETS))
        elif kind == 'lib-edit':
            a, _, b = libtext.partition('\0')
            libtext = (LIB2 if a == LIB else LIB) + '\0' + (b or LIBB)
            env.write_lib(libtext)
        elif kind == 'lib2-edit':
            # the second of the recorded files changes, the first and the last stay
            a, _, b = libtext.partition('\0')
            libtext = a + '\0' + (LIBB2 if (b or LIBB) == LIBB else LIBB)
            env.write_lib(libtext)
        elif kind == 'open-from-dir':
            # the same grammar text opened (Lark.open) from another directory, where the relatively imported files differ
            which = rng.choice(['A', 'B'])
            d = os.path.join(env.dir, 'tree' + which)
            os.makedirs(d, exist_ok=True)
            for fn, tx in (('g.lark', G_MAIN), ('lib.lark', LIB if which == 'A' else LIB2), ('lib2.lark', LIBB)):
                with open(os.path.join(d, fn), 'w') as f:
                    f.write(tx)
            extra, extra_key = {'_open': os.path.join(d, 'g.lark')}, ''
            opts = {'_opened_from': which}
        elif kind == 'package':
            # the modules come from an installed package (FromPackageLoader); one of its two files was edited since
            which = rng.choice(['A', 'B', 'C'])
            env.write_pkg({'A': LIB, 'B': LIB2, 'C': LIB + '\0' + LIBB2}[which])
            g = G_MAIN.replace('%import .lib', '%import lib')
            extra, extra_key = {'import_paths': [env.pkg_loader()]}, ''
            opts = {'_package_content': which}
        elif kind == 'version':
            ver = rng.choice(['0.0.1', '99.0'])
        elif kind == 'import-paths':
            # the same text resolved through another import path, where lib.lark has other content
            which = rng.choice(['A', 'B'])
            d = os.path.join(env.dir, 'paths' + which)
            os.makedirs(d, exist_ok=True)
            with open(os.path.join(d, 'lib.lark'), 'w') as f:
                f.write(LIB if which == 'A' else LIB2)
            g = G_MAIN.replace('%import .lib.', '%import lib.')
            extra, extra_key = {'import_paths': [d]}, ''
            opts = {'_import_dir': which}
        elif kind == 'unhashable':
            which = rng.choice(['edit_terminals', 'postlex'])
            if which == 'edit_terminals':
                extra, extra_key = {'edit_terminals': edit_terminals_upper}, 'edit_terminals'
            else:
                g = G_MAIN + 'UNUSED: "@@"\n'
                extra, extra_key = {'postlex': AlwaysAccept()}, 'postlex-always-accept'
        key = digest([g, sorted(opts.items()), libtext, ver])      # what lark's key should distinguish
        steps.append([kind, sorted(opts.items()), ver, extra_key])
        case = {'history': list(steps), 'seed_state': None}
        old_ver = lark.__version__
        if ver:
            lark.__version__ = ver
        try:
            same_key = cur == key
            changed = cur is not None and not same_key
            fk = {'grammar': 'grammar-changed', 'option': 'option-changed', 'lib-edit': 'imported-file-edited', 'lib2-edit': 'second-imported-file-edited',
                  'version': 'version-changed', 'import-paths': 'import-paths-changed', 'package': 'packaged-modules', 'open-from-dir': 'opened-from-another-directory'}.get(kind)
            if fk:
                ctx.count('step:' + fk)
            # the file on disk was written for (cur, cur_extra); lark's key cannot see `extra`
            cls = (lambda served: 'F-C12-2' if served else None) if (same_key and cur_extra != extra_key) else None
            info = {}
            ok = judge(ctx, env, g, opts, libtext, case, None, changed or cls is not None,
                       expect_served=(False if changed else (True if same_key else None)),
                       classify=cls, extra=extra, extra_key=extra_key, info=info)
            ctx.count('history-steps')
        finally:
            lark.__version__ = old_ver
        if not info.get('served'):
            cur, cur_extra = key, extra_key          # rebuilt: the file now belongs to this construction
        if not ok:
            return


PY311 = r'''
import sys
sys.path.insert(0, sys.argv[1]); sys.path.insert(1, sys.argv[2])
from lark import Lark
g = open(sys.argv[3]).read()
l = Lark(g, parser='lalr', source_path=sys.argv[3], cache=sys.argv[4])     # same keyword order as Env.construct: the key depends on it
if len(sys.argv) > 5:
    import json
    from vlark.props.c12 import behaviour
    json.dump(behaviour(l), open(sys.argv[5], 'w'), default=repr)
'''


def other_python(ctx, env, rng):
    vt = shutil.which('python3-vt') or '/opt/veriftools/pyvenv/bin/python'
    if not os.path.exists(vt):
        ctx.count('other-python-unavailable')
        return
    g, libtext = G_MAIN, LIB
    env.write_lib(libtext)
    with open(env.main, 'w') as f:
        f.write(g)
    script = os.path.join(env.dir, 'py311.py')
    with open(script, 'w') as f:
        f.write(PY311)
    repo = os.environ.get('VLARK_REPO', '/repo')
    verif = os.path.dirname(os.path.dirname(os.path.dirname(os.path.abspath(__file__))))
    # (1) file written by 3.11, then used by this interpreter
    if os.path.exists(env.cache):
        os.unlink(env.cache)
    p = subprocess.run([vt, script, repo, verif, env.main, env.cache], capture_output=True, timeout=120, env=dict(os.environ, PYTHONPATH='', PYTHONHASHSEED='0'))
    if p.returncode != 0 or not os.path.exists(env.cache):
        ctx.inconc('python 3.11 could not write a cache', {'err': p.stderr.decode()[-400:]})
        return
    ctx.count('step:other-python-version')
    judge(ctx, env, g, {}, libtext, {'history': ['written-by-python3.11']}, None, True, expect_served=False)
    # (2) file written by this interpreter, then used by 3.11: behaviour there must equal the uncached behaviour here
    fresh_file(env, g, {})
    outp = os.path.join(env.dir, 'b311.json')
    p = subprocess.run([vt, script, repo, verif, env.main, env.cache, outp], capture_output=True, timeout=120, env=dict(os.environ, PYTHONPATH='', PYTHONHASHSEED='0'))
    ctx.count('step:other-python-version')
    ctx.judged(['py312-file-read-by-py311'], True, [])
    if p.returncode != 0:
        ctx.violation('python3.11-fails-on-cache-written-by-3.12', {'history': ['written-by-python3.12-read-by-3.11']}, {'err': p.stderr.decode()[-600:]})
        return
    exp = env.expected(g, {}, libtext)
    b = json.load(open(outp))
    if json.loads(json.dumps(exp[1], default=repr)) != b:
        ctx.violation('python3.11-behaviour-differs-on-cache-written-by-3.12', {'history': ['written-by-python3.12-read-by-3.11']}, {})


def run_batch(ctx):
    rng = ctx.rng
    env = Env(ctx)
    try:
        tier = ctx.tier
        b = ctx.batch
        opts = dict(OPTION_SETS[b % len(OPTION_SETS)])
        g = G_MAIN if b % 3 else G_ALT
        ctx.sample({'grammar': g, 'opts': opts, 'lib': LIB, 'faults': 'truncate/bitflip/foreign-payload/killed-writer + history'})
        for _ in range(5 if tier == 'quick' else 12):
            if ctx.time_left(0.5):
                history(ctx, env, rng)
        faults_for(ctx, env, g, opts, LIB, rng, tier, exhaustive=(tier == 'thorough' and b < 16))
        killed_writer(ctx, env, G_MAIN, {}, LIB, rng, 2 if tier == 'quick' else 6)
        auto_named(ctx, env, rng)
        if b % 2 == 0:
            other_python(ctx, env, rng)
        if tier == 'thorough':
            while ctx.time_left() and rng.random() < 0.97:
                faults_for(ctx, env, G_MAIN if rng.random() < 0.5 else G_ALT, dict(rng.choice(OPTION_SETS)), LIB, rng, tier, exhaustive=False)
                history(ctx, env, rng)
                killed_writer(ctx, env, G_MAIN, {}, LIB, rng, 3)
    finally:
        env.close()


def replay(ctx, case):
    env = Env(ctx, case.get('env_dir'))
    rng = ctx.rng
    try:
        if 'auto_named' in case:
            for _ in range(30):
                auto_named(ctx, env, rng)
            return
        if 'history' in case:
            # histories are short and cheap: re-run the generator family (the step list documents what happened)
            for _ in range(40):
                history(ctx, env, rng)
            other_python(ctx, env, rng)
            return
        g, opts, libtext = case['grammar'], case['opts'], case['lib']
        env.write_lib(libtext)
        f = case['fault']
        data = fresh_file(env, g, opts)
        h, u = regions(data)
        base = dict(case)
        if f[0] == 'truncate':
            put(env, data[:f[1]])
            judge(ctx, env, g, opts, libtext, base, 'truncate', True, expect_served=False)
        elif f[0] == 'bitflip':
            if case.get('file_b64'):
                # the very bytes of the damaged file (a rebuilt cache file is not byte-identical: pickle order varies)
                import base64
                put(env, base64.b64decode(case['file_b64']))
            else:
                mod = bytearray(data)
                mod[min(f[2], len(mod) - 1)] ^= 1 << f[3]
                put(env, bytes(mod))
            cls = (lambda served: 'F-C12-1' if served else None) if f[1] == 'payload' else None
            judge(ctx, env, g, opts, libtext, base, 'bitflip-' + f[1], True, classify=cls)
        elif f[0] == 'killed-writer':
            killed_writer(ctx, env, g, opts, libtext, rng, 10)
        else:
            faults_for(ctx, env, g, opts, libtext, rng, 'quick', False)
    finally:
        env.close()

"""C02  LALR(1): reduce/reduce conflicts reported exactly, accepted language sound and (conflict
free) complete, shift preferred, next-token sets are those of the LALR(1) automaton."""
from ..core import STEPS, digest
from ..common import build, call, basic_tokens
from ..gram import RefGrammar, print_grammar
from .. import ref as R, gen
from ..lalr_ref import RefLALR, from_lark_rules, TooBig, Diverges, END

REBUILDS = 3                # extra constructions per grammar (kept alive) whose tables must equal the reference too
PARSE_BUDGET = 400_000     # python function entries inside lark per parse; observed maximum on these inputs is < 4000
LOOP_BUDGET = 60_000

NBATCH = {'quick': 16, 'thorough': 64}
BUDGET_S = {'quick': 80, 'thorough': 180}
PER_BATCH = {'quick': 100, 'thorough': 2500}
FLOORS = {
    'quick': {'distinct_nontrivial': 1500, 'feature:rr-conflict': 60, 'feature:sr-conflict': 60, 'feature:lalr!=slr': 100,
              'feature:rr-resolved-by-priority': 15, 'rows-compared': 2000, 'debug-table-states-compared': 2000,
              'accepts-compared': 2000, 'judged:basic': 3000, 'judged:contextual': 3000, 'feature:accepted': 1500,
              'feature:rejected': 1500, 'corpus': 14, 'feature:multi-start': 10, 'rebuilds-compared': 1500,
              'anchor:compute_lookaheads': 1, 'anchor:digraph': 1},
    'thorough-unused': {'distinct_nontrivial': 40000, 'feature:rr-conflict': 1500, 'feature:sr-conflict': 1500, 'feature:lalr!=slr': 2500,
                 'feature:rr-resolved-by-priority': 300, 'rows-compared': 50000, 'corpus': 14, 'rebuilds-compared': 20000},
}
RULE = ("cases = (grammar, lexer in {basic, contextual}, start symbol, token string) and (grammar, automaton state); grammars "
        "from the lalr-friendly block generator with perturbations, random tiny BNF (with priorities) and a textbook corpus; "
        "oracles: GrammarError <=> the reference LALR(1) table (canonical LR(1) merged by core, built from the compiled rule "
        "list) has a reduce/reduce conflict without strict priority winner; accept <=> reference shift-preferring LR driver "
        "accepts; accepted => member of the EBNF language (reference chart on the grammar AST); member => accepted when the "
        "reference finds no conflict; per reference state reached by a shortest viable prefix fed through parse_interactive(): "
        "terminals of choices() == reference row, accepts() == reference trial feeds; debug=True table == reference table by "
        "item-set cores; non-trivial = >=2 tokens on a grammar with a conflict or with a reduce whose lookahead set is a "
        "strict subset of FOLLOW (LALR != SLR); distinct by (grammar, lexer, start, input)")
ASSUMPTIONS = ["reference LALR(1) in vlark/lalr_ref.py takes lark's compiled BNF (Lark.rules of an Earley build) as input: the property is about the automaton of those rules",
               "completeness (member => accepted) is judged only when the reference finds neither a shift/reduce conflict nor a priority-resolved reduce/reduce conflict",
               "row/table comparisons only on reduced grammars (unproductive symbols give LR(0) states without LR(1) counterpart); language-level checks on all",
               "canonical LR(1) capped at 3000 states (skip-and-count)"]


def setup(ctx):
    from lark.parsers import lalr_analysis as la
    STEPS.watch('compute_lookaheads', la.LALR_Analyzer.compute_lookaheads)
    STEPS.watch('digraph', la.digraph)
    STEPS.watch('compute_includes_lookback', la.LALR_Analyzer.compute_includes_lookback)


def lark_names(rg, le):
    """tid -> lark terminal name (named: its name; anonymous: the terminal lark created for that pattern)"""
    out = {}
    for tid, T in rg.terms.items():
        if T.named:
            out[tid] = T.name
            continue
        for td in le.terminals:
            p = td.pattern
            if p.value == T.pat[1] and (type(p).__name__ == 'PatternStr') == (T.pat[0] == 's') and ''.join(sorted(p.flags)) == ''.join(sorted(T.pat[2])):
                out[tid] = td.name
                break
    return out


def reduced(ref):
    prod = set()
    ch = True
    while ch:
        ch = False
        for p in ref.prods:
            if p.lhs not in prod and all(s not in ref.nts or s in prod for s in p.rhs):
                prod.add(p.lhs)
                ch = True
    return all(n in prod for n in ref.nts)


def rule_key(r):
    return (r.origin.name, tuple(s.name for s in r.expansion))


def compare_debug_table(ctx, ref, ld, case):
    """secondary monitor: the parse table kept by Lark(..., debug=True), keyed by item-set cores"""
    pt = ld.parser.parser._parse_table
    pk = {p.idx: (p.lhs, p.rhs) for p in ref.prods}
    ref_states = {frozenset((pk[pi], d) for (pi, d) in core): ci for ci, core in enumerate(ref.cores)}
    lark_states = {frozenset((rule_key(rp.rule), rp.index) for rp in st): (st, row) for st, row in pt.states.items()}
    if set(ref_states) != set(lark_states):
        return 'debug-table-state-set-differs', {'only_lark': len(set(lark_states) - set(ref_states)), 'only_ref': len(set(ref_states) - set(lark_states))}
    for core, (st, row) in lark_states.items():
        ci = ref_states[core]
        exp = {}
        for sym, t in ref.goto[ci].items():
            exp[sym] = ('s', t)
        for sym, a in ref.rows[ci].items():
            exp[sym] = a
        got = {}
        for sym, (act, arg) in row.items():
            if act.name == 'Shift':
                got[sym] = ('s', ref_states[frozenset((rule_key(rp.rule), rp.index) for rp in arg)])
            else:
                got[sym] = ('r', rule_key(arg))
        exp2 = {sym: (a if a[0] == 's' else ('r', pk[a[1]])) for sym, a in exp.items()}
        ctx.count('debug-table-states-compared')
        if got != exp2:
            diff = {s: [str(got.get(s)), str(exp2.get(s))] for s in set(got) | set(exp2) if got.get(s) != exp2.get(s)}
            return 'debug-table-row-differs', {'state': sorted(str(x) for x in st), 'diff(lark,ref)': diff}
    return None


def run_grammar(ctx, G, family, inputs, lexers=('basic', 'contextual'), rebuilds=None):
    from lark import Token
    text = print_grammar(G)
    starts = list(G.get('start') or ['start'])
    case0 = {'grammar': G, 'family': family}
    try:
        rg = RefGrammar(G)
    except Exception as e:
        ctx.inconc('reference grammar construction failed: %r' % e, case0)
        return
    st, le = build(ctx, text, parser='earley', lexer='basic', priority='normal', start=starts)
    if st != 'ok':
        ctx.count('skipped:earley-build-' + st)
        return
    try:
        ref = from_lark_rules(le.rules, starts)
    except TooBig:
        ctx.count('skipped:lr1-too-big')
        return
    names = lark_names(rg, le)
    ex = gen.term_examples(rg, G)
    is_red = reduced(ref)
    feats = ['family:' + family]
    if ref.has_rr:
        feats.append('rr-conflict')
    if ref.sr:
        feats.append('sr-conflict')
    if ref.rr_resolved:
        feats.append('rr-resolved-by-priority')
    slr = ref.slr_differs()
    if slr:
        feats.append('lalr!=slr')
    if len(starts) > 1:
        feats.append('multi-start')
    if not is_red:
        feats.append('non-reduced')
    interesting = bool(ref.has_rr or ref.sr or ref.rr_resolved or slr)
    conflict_free = not (ref.sr or ref.rr_resolved or ref.has_rr)
    ctx.sample({'grammar': text, 'family': family, 'features': feats, 'lr1_states': len(ref.lr1_states), 'lalr_states': len(ref.cores),
                'inputs': inputs[:5]})
    for lexer in lexers:
        st, l = build(ctx, text, parser='lalr', lexer=lexer, start=starts)
        ctx.count('constructions')
        case = dict(case0, lexer=lexer)
        if st == 'wall':
            ctx.inconc('wall guard in construction', case)
            continue
        if st == 'budget':
            ctx.violation('construction-no-termination', case, {'budget': l})
            continue
        got_rr = st == 'exc' and l['class'] == 'GrammarError' and 'Reduce/Reduce collision' in l.get('msg', '')
        ctx.judged([text, lexer, 'construct'], interesting, feats)
        if st == 'exc' and not got_rr:
            ctx.violation('construction-fails-with-other-error', case, {'exc': l})
            continue
        if not is_red:
            # useless symbols: LR(0) states hold items that no LR(1) state has, "the LALR(1) automaton" is not
            # well defined; only soundness of the accepted language is judged below
            ctx.count('construction-not-judged:non-reduced')
            if got_rr:
                continue
        elif got_rr != ref.has_rr:
            ctx.violation('missing-reduce/reduce-GrammarError' if ref.has_rr else 'spurious-reduce/reduce-GrammarError', case,
                          {'reference_unresolved': [(ci, la, [repr(ref.prods[p]) for p in ps]) for ci, la, ps in ref.rr_unresolved[:3]],
                           'lark': l if st == 'exc' else 'constructed'})
            continue
        if got_rr:
            continue
        # ---- language
        for s in starts:
            for w in inputs:
                inp, fail = basic_tokens(rg, w)
                c = dict(case, start=s, input=w)
                diverges = False
                if inp is None:
                    exp_drv, member, ntok = False, False, 0
                    # the parser consumes the tokens before the lexing failure: it may already spin there
                    pre, _ = basic_tokens(rg, w[:fail])
                    ptoks = [names.get(t[0]) for t in pre.toks] if pre is not None else []
                    diverges = is_red and None not in ptoks and ref.prefix_diverges(s, ptoks)
                else:
                    toks = [names.get(t[0]) for t in inp.toks]
                    ntok = len(toks)
                    drv = ref.drive(s, toks) if None not in toks else ('error',)
                    diverges = drv[0] == 'loop'
                    exp_drv = drv[0] == 'accept'
                    member = R.Chart(rg, inp).accepts(s)
                out = call(ctx, 'parse' if not diverges else 'parse(diverging automaton)', l.parse, w, start=s,
                           budget=LOOP_BUDGET if diverges else PARSE_BUDGET)
                if out[0] == 'wall':
                    ctx.inconc('wall guard', c)
                    continue
                if out[0] == 'budget' and not is_red:
                    ctx.count('budget-hit-not-judged:non-reduced')
                    continue
                if diverges:
                    # the conflict-resolved LALR(1) automaton itself reduces forever on this input (an epsilon
                    # cycle preferred by priority): C02 makes no termination claim, the case is counted only
                    ctx.count('reference-automaton-diverges' + ('' if out[0] == 'budget' else ':lark-returned'))
                    continue
                if out[0] == 'budget':
                    ctx.violation('parse-no-termination', c, {'budget': out[1]})
                    continue
                got = out[0] == 'ok'
                ctx.judged([text, lexer, s, w], interesting and ntok >= 2, ['accepted' if got else 'rejected'])
                ctx.count('judged:' + lexer)
                bad = None
                if got != exp_drv and is_red:
                    bad = 'accepts-but-reference-LALR-driver-rejects' if got else 'rejects-but-reference-LALR-driver-accepts'
                elif got and not member:
                    bad = 'unsound:accepts-nonmember'
                elif member and not got and conflict_free and is_red:
                    bad = 'incomplete:rejects-member-of-conflict-free-grammar'
                elif not got and not out[1].get('is_ui'):
                    bad = 'rejection-not-UnexpectedInput'
                if bad:
                    if inp is not None and R.recognise2(rg, inp, s) != member:
                        ctx.inconc('ORACLE-DISAGREEMENT chart vs recognise2', c)
                        continue
                    ctx.violation(bad + ':' + lexer, c, {'reference_driver_accepts': exp_drv, 'member': member,
                                                         'lark': out if not got else 'accepted', 'conflict_free': conflict_free})
        # ---- next-token sets per state
        if not is_red:
            ctx.count('rows-skipped:non-reduced')
            continue
        for s in starts:
            for state, (prefix, stack) in sorted(ref.shortest_prefixes(s).items()):
                c = dict(case, start=s, prefix=list(prefix))
                try:
                    ip = l.parse_interactive(start=s)
                    for t in prefix:
                        ip.feed_token(Token(t, ''))
                    row = {k for k in ip.choices() if k.isupper() or k == END}
                    try:
                        ref_acc = ref.accepts(stack)
                    except Diverges:
                        ctx.count('accepts-skipped:reference-automaton-diverges')
                        ref_acc = None
                    acc = set(STEPS.run('accepts', PARSE_BUDGET, ip.accepts)) if ref_acc is not None else None
                except Exception as e:
                    ctx.violation('interactive-feed-of-viable-prefix-fails:' + lexer, c, {'exc': repr(e)[:300]})
                    continue
                ctx.count('rows-compared')
                if ref_acc is not None:
                    ctx.count('accepts-compared')
                ctx.judged([text, lexer, s, 'row', list(prefix)], interesting and len(prefix) >= 2, ['row'])
                if row != ref.row_terminals(state):
                    ctx.violation('next-token-set-differs-from-LALR(1)-row:' + lexer, c,
                                  {'lark': sorted(row), 'reference': sorted(ref.row_terminals(state))})
                elif ref_acc is not None and acc != ref_acc:
                    ctx.violation('accepts()-differs-from-reference-trial-feeds:' + lexer, c,
                                  {'lark': sorted(acc), 'reference': sorted(ref_acc)})
    # ---- debug table (secondary monitor)
    if is_red and not ref.has_rr:
        st, ld = build(ctx, text, parser='lalr', lexer='basic', start=starts, debug=True)
        if st == 'ok':
            try:
                r = compare_debug_table(ctx, ref, ld, case0)
            except Exception as e:       # internal layout changed: the monitor is inconclusive, the boundary oracles decide
                ctx.count('debug-table-monitor-unavailable')
                r = None
            if r:
                ctx.violation(r[0], dict(case0, lexer='basic'), r[1])
            # the table must not depend on allocation history: rebuild while earlier instances are alive
            keep = [ld, le]
            for k in range(rebuilds if rebuilds is not None else (25 if family.startswith('corpus') else REBUILDS)):
                st, ld2 = build(ctx, text, parser='lalr', lexer='basic', start=starts, debug=True)
                if st != 'ok':
                    ctx.violation('rebuild-fails', dict(case0, lexer='basic'), {'status': st, 'exc': ld2 if st == 'exc' else None})
                    break
                keep.append(ld2)
                ctx.count('rebuilds-compared')
                try:
                    r = compare_debug_table(ctx, ref, ld2, case0)
                except Exception:
                    r = None
                if r:
                    ctx.violation(r[0] + ':on-rebuild', dict(case0, lexer='basic', rebuilds=k + 1), r[1])
                    break


def P(name, *alts, prio=None):
    return gen.rule(name, [gen.alt(a) for a in alts], prio=prio)


def T_(n):
    return ['t', n]


def N_(n):
    return ['r', n]


ABC = [gen.term('A', ['s', 'a', '']), gen.term('B', ['s', 'b', '']), gen.term('C', ['s', 'c', '']), gen.term('D', ['s', 'd', '']), gen.term('E', ['s', 'e', ''])]
CORPUS = [
    ('lalr-not-slr', [P('start', [N_('l'), T_('B'), N_('r')], [N_('r')]), P('l', [T_('C'), N_('r')], [T_('A')]), P('r', [N_('l')])]),
    ('lr1-not-lalr', [P('start', [T_('A'), N_('x'), T_('D')], [T_('B'), N_('y'), T_('D')], [T_('A'), N_('y'), T_('E')], [T_('B'), N_('x'), T_('E')]),
                      P('x', [T_('C')]), P('y', [T_('C')])]),
    ('lr1-not-lalr-priority', [P('start', [T_('A'), N_('x'), T_('D')], [T_('B'), N_('y'), T_('D')], [T_('A'), N_('y'), T_('E')], [T_('B'), N_('x'), T_('E')]),
                               P('x', [T_('C')], prio=2), P('y', [T_('C')], prio=1)]),
    ('rr-equal-priority', [P('start', [N_('x')], [N_('y')]), P('x', [T_('A')], prio=1), P('y', [T_('A')], prio=1)]),
    ('rr-negative-priority', [P('start', [N_('x')], [N_('y'), T_('B')]), P('x', [T_('A')], prio=-1), P('y', [T_('A')])]),
    ('dangling-else', [P('start', [T_('A'), N_('start')], [T_('A'), N_('start'), T_('E'), N_('start')], [T_('B')])]),
    ('nullable-suffix', [P('start', [N_('b'), N_('c'), N_('d'), T_('E')], [N_('b'), N_('c'), N_('d')]), P('b', [T_('A')], [T_('A'), N_('b')]), P('c', [], [T_('B')]), P('d', [], [T_('C'), N_('d')])]),
    ('nullable-prefix', [P('start', [N_('c'), N_('d'), T_('A')], [N_('c'), T_('B')]), P('c', [], [T_('B')]), P('d', [], [T_('C')])]),
    ('empty-start', [P('start', [], [T_('A'), N_('start'), T_('B')])]),
    ('expr', [P('start', [N_('start'), T_('A'), N_('t')], [N_('t')]), P('t', [N_('t'), T_('B'), N_('f')], [N_('f')]), P('f', [T_('C')], [T_('D'), N_('start'), T_('E')])]),
    ('ambiguous-expr-sr', [P('start', [N_('start'), T_('A'), N_('start')], [T_('C')])]),
    # spurious 'includes' edges from kernel items (fixed in df279ed): LALR(1) has a shift/reduce but no reduce/reduce conflict
    ('includes-from-kernel-item', [P('start', [N_('r1'), N_('start')], [T_('A'), N_('r1')]), P('r0', [], [T_('A')]), P('r1', [T_('A'), N_('r0')])]),
    # read sets shared inside a reads-SCC were updated in place (fixed in a338d0e): table depended on memory addresses
    ('digraph-aliasing', [P('start', [], [N_('r1'), N_('r2'), N_('r2')], prio=0), P('r0', [T_('A')], [N_('start'), N_('r0')], prio=0), P('r1', [N_('start'), N_('start')], prio=3),
                          P('r2', [N_('r1'), N_('r2'), N_('r1')], [T_('A'), T_('A'), N_('r1')], [N_('start'), N_('r2'), N_('r2')], prio=2)]),
    ('reads-chain', [P('start', [N_('x'), N_('n1'), N_('n2'), T_('A')], [N_('x'), N_('n1'), T_('B')]), P('x', [T_('C')]), P('n1', [], [T_('D')]), P('n2', [], [T_('E')])]),
]


def corpus_grammar(rules):
    used = set()
    for r in rules:
        for a in r['alts']:
            gen._collect_terms(a['items'], used)
    return {'rules': rules, 'terms': [t for t in ABC if t['name'] in used], 'ignore': [], 'start': ['start'], 'alphabet': [t['pat'][1] for t in ABC if t['name'] in used]}


def inputs_for(rng, G, n_random, maxlen, n_samples):
    rg = RefGrammar(G)
    ex = gen.term_examples(rg, G)
    ins = set(gen.random_strings(rng, G['alphabet'], n_random, maxlen))
    for s in G['start']:
        for _ in range(n_samples):
            sent = gen.sample_sentence(rg, rng, ex, start=s, depth=5)
            if sent is None:
                break
            w = ''.join(x for _, x in sent)
            if len(w) <= 14:
                ins.add(w)
                ins.add(gen.mutate(rng, w, G['alphabet']))
                ins.add(w[:rng.randint(0, len(w))])
    return sorted(ins)


def run_batch(ctx):
    rng = ctx.rng
    quick = ctx.tier == 'quick'
    if ctx.batch == 0:
        for name, rules in CORPUS:
            G = corpus_grammar(rules)
            run_grammar(ctx, G, 'corpus:' + name, gen.all_strings(G['alphabet'], 5, cap=150, rng=rng))
            ctx.count('corpus')
    for i in range(PER_BATCH[ctx.tier]):
        if not ctx.time_left():
            ctx.count('stopped-on-time-budget')
            break
        G = gen.lalr_friendly(rng, prios=(i % 3 == 0))
        run_grammar(ctx, G, 'lalr-friendly', inputs_for(rng, G, 10, 5, 14 if quick else 25))
        G = gen.bnf_tiny(rng, prios=(i % 2 == 0))
        run_grammar(ctx, G, 'bnf-tiny', gen.all_strings(G['alphabet'], 4 if quick else 5, cap=50 if quick else 120, rng=rng))
        if i % 4 == 0:
            G = gen.shaped_bnf(rng)
            run_grammar(ctx, G, 'shaped', gen.all_strings(G['alphabet'], 5, cap=60, rng=rng))


def replay(ctx, case):
    G = case['grammar']
    if 'input' in case:
        run_grammar(ctx, G, case.get('family', 'replay'), [case['input']], (case['lexer'],))
    else:
        run_grammar(ctx, G, case.get('family', 'replay'), [], (case.get('lexer', 'basic'),), rebuilds=40 if 'rebuilds' in case else None)


def selftest(ctx):
    Pn = [('s', ['l', 'EQ', 'r'], 0, None), ('s', ['r'], 0, None), ('l', ['STAR', 'r'], 0, None), ('l', ['ID'], 0, None), ('r', ['l'], 0, None)]
    g = RefLALR(Pn, ['s'])
    assert len(g.lr1_states) == 14 and len(g.cores) == 10 and not g.sr and not g.has_rr and g.slr_differs()
    assert g.drive('s', ['STAR', 'ID', 'EQ', 'ID']) == ('accept',) and g.drive('s', ['ID', 'EQ', 'EQ'])[:2] == ('error', 2)
    Pn = [('s', ['A', 'a', 'D'], 0, None), ('s', ['B', 'b', 'D'], 0, None), ('s', ['A', 'b', 'E'], 0, None), ('s', ['B', 'a', 'E'], 0, None), ('a', ['C'], 0, None), ('b', ['C'], 0, None)]
    g = RefLALR(Pn, ['s'])
    assert len(g.lr1_states) == 14 and len(g.cores) == 13 and len(g.rr_unresolved) == 2
    Pn = [('s', ['I', 's'], 0, None), ('s', ['I', 's', 'E', 's'], 0, None), ('s', ['X'], 0, None)]
    g = RefLALR(Pn, ['s'])
    assert len(g.sr) == 1 and g.drive('s', ['I', 'I', 'X', 'E', 'X']) == ('accept',)
    ctx.monitor('reference-selftest')

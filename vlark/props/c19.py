"""C19  Reconstructor output re-parses to the same tree (for grammars inside the supported class)."""
from ..core import STEPS, digest, canon_tree
from ..common import build, call
from ..gram import RefGrammar, print_grammar
from .. import gen
from ..lalr_ref import from_lark_rules, TooBig

NBATCH = {'quick': 16, 'thorough': 64}
BUDGET_S = {'quick': 80, 'thorough': 180}
PER_BATCH = {'quick': 600, 'thorough': 9000}
FLOORS = {
    'quick': {'distinct_nontrivial': 1500, 'round-trips': 5000, 'grammars-in-class': 500, 'feature:filtered-token-reinserted': 3000,
              'feature:inlined-rule-matched': 800, 'feature:expand1-rule-matched': 800, 'feature:alias': 1000, 'feature:repetition': 1500,
              'feature:bang-rule': 300, 'feature:parser:lalr': 2000, 'feature:parser:earley': 1000, 'template-class': 16, 'calc-corpus': 1, 'nested-corpus': 1, 'aliased-recursion-corpus': 1, 'template-root-corpus': 1},
    'thorough-unused': {'distinct_nontrivial': 25000, 'round-trips': 80000, 'grammars-in-class': 8000},
}
RULE = ("cases = (grammar generated inside the supported class, parser in {lalr, earley}, accepted input): EBNF grammars with "
        "?-rules, _inlined rules, !-rules, aliases, groups, ? * + ~n..m, string and regexp terminals, whitespace ignored, "
        "maybe_placeholders=False; class membership is VERIFIED per grammar, not assumed: reference LALR(1) of the compiled "
        "rules has no conflict (=> unambiguous), no useless rules, every filtered terminal is a string literal, every compiled "
        "alternative keeps an unfiltered symbol other than its own rule; oracle: t = parse(w); s = "
        "Reconstructor(parser).reconstruct(t) raises nothing, parse(s) == t; non-trivial = tree in which a filtered token had "
        "to be re-inserted and an inlined or ?-rule was matched; distinct by (grammar, parser, input)")
ASSUMPTIONS = ["membership in the supported class is decided by the reference LALR(1) (conflict-free) and syntactic checks on Lark.rules / Lark.terminals",
               "grammars using templates are inside the stated class but form a separate input class (finding F-C19-1)",
               "out-of-class grammars are counted and not judged"]


def in_class(ctx, l, le):
    """-> None if the compiled grammar is inside the Reconstructor's stated class, else the reason"""
    try:
        ref = from_lark_rules(le.rules, ['start'])
    except TooBig:
        return 'lr1-too-big'
    except Exception as e:
        return 'reference-failed'
    if ref.sr or ref.rr_resolved or ref.has_rr:
        return 'lalr-conflict(ambiguity not excluded)'
    from .c02 import reduced
    if not reduced(ref):
        return 'useless-rules'
    tdefs = {t.name: t for t in le.terminals}
    for r in le.rules:
        kept = []
        for s in r.expansion:
            if s.is_term and s.filter_out:
                t = tdefs.get(s.name)
                if t is None or type(t.pattern).__name__ != 'PatternStr':
                    return 'filtered-terminal-is-not-a-string'
            elif s.is_term and s.name.startswith('_') and not r.options.keep_all_tokens:
                t = tdefs.get(s.name)
                if t is None or type(t.pattern).__name__ != 'PatternStr':
                    return 'filtered-terminal-is-not-a-string'
            else:
                kept.append(s)
        if not any(s != r.origin for s in kept):
            return 'alternative-without-unfiltered-symbol-other-than-itself'
    return None


def inlined_multi(G):
    """names of ?-rules having an alternative that consists of one symbol which is an inlined (_) rule (F-C19-2)"""
    out = set()
    for r in G['rules']:
        if '?' in r.get('mods', ''):
            for a in r['alts']:
                keep_all = '!' in r.get('mods', '')
                kept = [x for x in a['items'] if keep_all or not (x[0] == 's' or (x[0] == 't' and x[1].startswith('_')))]
                it = kept[0] if len(kept) == 1 else None      # the only symbol left once filtered tokens are dropped
                # one symbol that lark compiles to a single inlined rule: a _rule reference, or a repetition (x+, x*, x~n..m
                # become __helper rules, which are inlined like _rules)
                while it and it[0] == 'g' and len(it[1]) == 1 and len(it[1][0]['items']) == 1:
                    it = it[1][0]['items'][0]          # ( x ) is x
                if it and ((it[0] == 'r' and it[1].startswith('_')) or (it[0] == 'q' and it[2] != '?')):
                    out.add(a.get('alias') or r['name'])
    return out


def without_expand1(G):
    G2 = dict(G)
    G2['rules'] = [dict(r, mods=r.get('mods', '').replace('?', '')) for r in G['rules']]
    return G2


def expand1_misjudged(rules):
    """Static part of the F-C19-2 classifier, on lark's compiled rules: the alternatives of ?-rules on which the tree
    matcher's decision 'this alternative leaves no node of its own iff it has exactly one unfiltered symbol' is wrong
    (or cannot be made): the symbol is an inlined rule / repetition helper that may contribute 0 or >=2 children, several
    symbols may together contribute a single child, or the alternative is the self-reference the matcher skips.
    An empty result means that every ?-rule of the grammar is of the simple kind the matcher handles by design, and a
    failure there is not this finding."""
    INF = 3
    inl = {r.origin for r in rules if r.origin.name.startswith('_')}

    def kept(r):
        return [s for s in r.expansion if not (s.is_term and s.filter_out)]
    lo = {o: INF for o in inl}
    hi = {o: 0 for o in inl}
    for _ in range(len(rules) + 2):
        changed = False
        for r in rules:
            if r.origin not in inl:
                continue
            l = min(INF, sum(lo[s] if s in inl else 1 for s in kept(r)))
            h = min(INF, sum(hi[s] if s in inl else 1 for s in kept(r)))
            if l < lo[r.origin]:
                lo[r.origin] = l
                changed = True
            if h > hi[r.origin]:
                hi[r.origin] = h
                changed = True
        if not changed:
            break
    bad = []
    for r in rules:
        if not r.options.expand1 or r.alias:
            continue
        K = kept(r)
        if K == [r.origin]:
            bad.append(r)
            continue
        l = sum(lo[s] if s in inl else 1 for s in K)
        h = sum(hi[s] if s in inl else 1 for s in K)
        if len(K) == 1:
            ok = l == h == 1
        else:
            ok = l >= 2 or h == 0
        if not ok:
            bad.append(r)
    return bad


def expand1_explains(ctx, G, parser, w, rules=None):
    """F-C19-2 classifier: the grammar has a ?-alternative the matcher misjudges (see expand1_misjudged) and the same
    round trip succeeds once every ? modifier is removed from the grammar"""
    from lark.reconstruct import Reconstructor
    if not any('?' in r.get('mods', '') for r in G['rules']):
        return False
    if rules is not None and not expand1_misjudged(rules):
        ctx.count('expand1-all-simple:failure-not-attributed-to-F-C19-2')
        return False
    kw = dict(parser=parser, maybe_placeholders=False)
    if parser == 'earley':
        kw['lexer'] = 'basic'
    st, p = build(ctx, print_grammar(without_expand1(G)), **kw)
    if st != 'ok':
        return False
    try:
        t = p.parse(w)
        s = Reconstructor(p).reconstruct(t)
        return canon_tree(p.parse(s)) == canon_tree(t)
    except Exception:
        return False


def start_is_expand1(G):
    return any(r['name'] == 'start' and '?' in r.get('mods', '') for r in G['rules'])


def start_names(G):
    out = {'start'}
    for r in G['rules']:
        if r['name'] == 'start':
            out |= {a['alias'] for a in r['alts'] if a.get('alias')}
    return out


def tree_feats(G, t):
    f = set()
    names = {str(st.data) for st in t.iter_subtrees()}
    return f


def run_grammar(ctx, G, rng, texts, only_parser=None):
    from lark.reconstruct import Reconstructor
    G = gen.prune(G)
    text = print_grammar(G)
    has_template = any(r.get('params') for r in G['rules'])
    st, le = build(ctx, text, parser='earley', lexer='basic', maybe_placeholders=False, priority='normal')
    if st != 'ok':
        ctx.count('skipped:construction-' + st)
        return
    why = in_class(ctx, None, le)
    if why:
        ctx.count('out-of-class:' + why)
        return
    ctx.count('grammars-in-class')
    if has_template:
        ctx.count('template-class')
    gfeats = set()
    if any(r['name'].startswith('_') for r in G['rules']):
        gfeats.add('inlined-rule-matched')
    if any('?' in r.get('mods', '') for r in G['rules']):
        gfeats.add('expand1-rule-matched')
    if any('!' in r.get('mods', '') for r in G['rules']):
        gfeats.add('bang-rule')
    if any(a.get('alias') for r in G['rules'] for a in r['alts']):
        gfeats.add('alias')
    if any(c in text for c in ('*', '+', '~')):
        gfeats.add('repetition')
    if '"' in text.split('\n%ignore')[0]:
        gfeats.add('filtered-token-reinserted')
    for parser in ('lalr', 'earley'):
        if only_parser and parser != only_parser:
            continue
        kw = dict(parser=parser, maybe_placeholders=False)
        if parser == 'earley':
            kw['lexer'] = 'basic'
        st, p = build(ctx, text, **kw)
        if st != 'ok':
            ctx.count('skipped:construction-%s:%s' % (st, parser))
            continue
        try:
            rec = Reconstructor(p)
        except Exception as e:
            ctx.judged([text, parser, 'construct'], False, [])
            ctx.violation('Reconstructor-construction-fails:%s' % parser, {'grammar': G, 'parser': parser}, {'exc': repr(e)[:300]},
                          'F-C19-1' if has_template else None)
            continue
        hist = []
        for w in texts:
            t = call(ctx, 'parse', p.parse, w, raw=True)
            if t[0] != 'ok' or not hasattr(t[1], 'iter_subtrees'):
                continue
            case = {'grammar': G, 'parser': parser, 'input': w, 'earlier': list(hist)}      # what this Reconstructor did before
            hist.append(w)
            ct = canon_tree(t[1])
            feats = set(gfeats) | {'parser:' + parser}
            nt = 'filtered-token-reinserted' in feats and bool(feats & {'inlined-rule-matched', 'expand1-rule-matched'})
            ctx.judged([text, parser, w], nt, sorted(feats))
            ctx.count('round-trips')
            r = call(ctx, 'reconstruct', rec.reconstruct, t[1], raw=True, budget=40_000_000)
            if r[0] in ('budget', 'wall'):
                # the statement makes no cost claim (tree matching runs Earley over highly ambiguous helper rules): not judged
                ctx.count('reconstruct-too-expensive(not judged)')
                continue
            fid = None
            if has_template:
                fid = 'F-C19-1'
            root_lost = start_is_expand1(G) and str(t[1].data) not in start_names(G)
            if r[0] != 'ok':
                if fid and not (r[1]['class'] == 'AssertionError' or (r[1]['class'] == 'GrammarError' and 'Using an undefined rule' in r[1].get('msg', '')
                                                                        and any(x['name'] in r[1]['msg'] for x in G['rules'] if x.get('params')))):
                    fid = None
                if fid is None and r[1]['class'] == 'UnexpectedToken' and isinstance(r[1].get('token'), str) and r[1]['token'].startswith('Tree('):
                    # F-C19-2: the node that cannot be matched is a ?-rule whose alternative is a single inlined rule
                    import re as _re
                    m = _re.match(r"Tree\(Token\('RULE', '([^']+)'\)|Tree\('([^']+)'", r[1]['token'])
                    if m and (m.group(1) or m.group(2)) in inlined_multi(G):
                        fid = 'F-C19-2'
                    elif m and has_template and any(x.get('params') and x['name'] == (m.group(1) or m.group(2)) for x in G['rules']):
                        fid = 'F-C19-1'
                if fid is None and expand1_explains(ctx, G, parser, w, p.rules):
                    fid = 'F-C19-2'
                ctx.violation('reconstruct-raises:%s' % parser, case, {'exc': r[1], 'tree': ct}, fid)
                continue
            s = r[1]
            # the same tree through a fresh Reconstructor: the text must not depend on what this one reconstructed before
            try:
                s_fresh = Reconstructor(p).reconstruct(t[1])
            except Exception as e:
                s_fresh = 'EXC ' + type(e).__name__
            ctx.count('fresh-reconstructor-comparisons')
            if s_fresh != s:
                ctx.violation('reconstruction-depends-on-earlier-reconstructions:%s' % parser, case, {'shared_instance': s, 'fresh_instance': s_fresh})
                continue
            t2 = call(ctx, 'parse', p.parse, s, raw=True)
            # F-C19-3: ?start was replaced by its only child, so the tree handed to reconstruct() is not a start tree
            fid3 = 'F-C19-3' if root_lost else None
            if fid3 is None and (t2[0] != 'ok' or canon_tree(t2[1]) != ct) and expand1_explains(ctx, G, parser, w, p.rules):
                fid3 = 'F-C19-2'
            if t2[0] != 'ok':
                ctx.violation('reconstructed-text-is-rejected:%s' % parser, case, {'reconstructed': s, 'exc': t2[1]}, fid3)
                continue
            if canon_tree(t2[1]) != ct:
                ctx.violation('reconstructed-text-parses-to-a-different-tree:%s' % parser, case, {'reconstructed': s, 'tree': ct, 'tree2': canon_tree(t2[1])}, fid3)
    if ctx.evaluations % 9 == 0:
        ctx.sample({'grammar': text, 'inputs': texts[:4]})


def sentences(rng, G, n):
    rg = RefGrammar(G)
    ex = gen.term_examples(rg, G)
    out = set()
    for _ in range(n * 3):
        s = gen.sample_sentence(rg, rng, ex, depth=rng.choice([3, 5, 6]))
        if s is None:
            break
        w = ' '.join(x for _, x in s)
        if len(w) <= 60:
            out.add(w)
        if len(out) >= n:
            break
    return sorted(out)


def gen_grammar(rng, templates=False):
    G = gen.ebnf(rng, n_rules=rng.randint(2, 4), p_ignore=1.0, allow_templates=templates, p_rec=rng.choice([0.1, 0.1, 0.3]),
                 mods_pool=('', '', '', '?', '?', '!', '?!'))
    # multi-digit numbers: adjacent tokens must be separated by the reconstructor
    for t in G['terms']:
        if t['name'] == 'N':
            t['pat'] = ['x', '[0-9]+', '']
            t['ex'] = ['7', '42']
        elif t['name'] == 'C' and rng.random() < 0.6:
            # like a command-line flag: starts with punctuation, ends in letters - must not fuse with a following word
            t['pat'] = ['x', '-[a-z]+', '']
            t['ex'] = ['-l', '-ab']
    return G


TEMPLATE_G = {'rules': [gen.rule('start', [gen.alt([['c', 'lst', [['t', 'A']]], ['q', ['c', 'lst', [['r', 'pair']]], '?', 0, 0]])]),
                        gen.rule('pair', [gen.alt([['t', 'A'], gen.LIT(':'), ['t', 'B']])]),
                        gen.rule('lst', [gen.alt([gen.LIT('['), ['p', 'x'], ['q', ['g', [gen.alt([gen.LIT(','), ['p', 'x']])]], '*', 0, 0], gen.LIT(']')])], params=['x'])],
              'terms': [gen.term('A', ['s', 'a', ''], ex=['a']), gen.term('B', ['s', 'b', ''], ex=['b']), gen.term('WS', ['x', ' +', ''], ex=[' '])],
              'ignore': ['WS'], 'start': ['start'], 'alphabet': list('ab[],: ')}


def _calc_with_calls():
    L, r, a = gen.LIT, gen.rule, gen.alt
    star = lambda it: ['q', it, '*', 0, 0]
    return {'rules': [
        r('start', [a([['q', ['r', 'stmt'], '+', 0, 0]])]),
        r('stmt', [a([['r', 'expr'], L(';')]), a([['t', 'X'], L('('), ['r', 'expr'], star(['g', [a([L(','), ['r', 'expr']])]]), L(')'), L(';')], 'call'),
                   a([L('['), ['r', 'expr'], star(['g', [a([L('|'), ['r', 'expr']])]]), L(']')], 'alts')]),
        r('expr', [a([['r', 'expr'], L('+'), ['r', 'term']]), a([['r', 'term']])], mods='?'),
        r('term', [a([['r', 'term'], L('*'), ['r', 'atom']]), a([['r', 'atom']])], mods='?'),
        r('atom', [a([['t', 'N']]), a([['t', 'X']]), a([L('('), ['r', 'expr'], L(')')])], mods='?')],
        'terms': [gen.term('N', ['x', '[0-9]+', ''], ex=['7', '42']), gen.term('X', ['x', '[a-z]+', ''], ex=['x', 'f']), gen.term('WS', ['x', ' +', ''], ex=[' '])],
        'ignore': ['WS'], 'start': ['start'], 'alphabet': list('7xf+*(),;[]| ')}


def _nested():
    """ordinary rules whose only child can be a node of the same rule, wrapped in filtered tokens"""
    L, r, a = gen.LIT, gen.rule, gen.alt
    star = lambda it: ['q', it, '*', 0, 0]
    return {'rules': [
        r('start', [a([['q', ['g', [a([['r', 'lst']]), a([['r', 'block']])]], '+', 0, 0]])]),
        r('lst', [a([L('['), ['r', '_items'], L(']')])]),
        r('_items', [a([['r', 'item'], star(['g', [a([L(','), ['r', 'item']])]])])]),
        r('item', [a([['t', 'N']]), a([['r', 'lst']])], mods='?'),
        r('block', [a([L('{'), ['q', ['r', 'stmt'], '+', 0, 0], L('}')])]),
        r('stmt', [a([['t', 'X'], L(';')], 'name'), a([['r', 'block']])], mods='?')],
        'terms': [gen.term('N', ['x', '[0-9]+', ''], ex=['7', '42']), gen.term('X', ['x', '[a-z]+', ''], ex=['x', 'f']), gen.term('WS', ['x', ' +', ''], ex=[' '])],
        'ignore': ['WS'], 'start': ['start'], 'alphabet': list('7x[]{},; ')}


def _aliased_recursion():
    """a rule with an alias (so other rules may refer to 'a node of start or al0') whose node can have a node of the same
    rule as its only child, with filtered tokens next to it"""
    L, r, a = gen.LIT, gen.rule, gen.alt
    return {'rules': [
        r('start', [a([['t', 'B']], 'al0'), a([['g', [a([['t', 'K']]), a([['r', '_i0']])]]])], mods='!'),
        r('_i0', [a([['m', [a([['t', 'B'], ['t', 'K']])]], ['t', '_U'], ['r', 'start']]), a([['t', 'K'], ['t', '_U']])])],
        'terms': [gen.term('K', ['s', 'k', 'i'], ex=['k', 'K']), gen.term('B', ['s', 'b', ''], ex=['b']), gen.term('_U', ['s', 'u', ''], ex=['u']),
                  gen.term('WS', ['x', ' +', ''], ex=[' '])],
        'ignore': ['WS'], 'start': ['start'], 'alphabet': list('kKbu ')}


def run_batch(ctx):
    rng = ctx.rng
    from .c13 import RICH
    from .c08 import ws_variant
    run_grammar(ctx, TEMPLATE_G, rng, ['[a]', '[a, a] [a:b]', '[a,a,a][a:b,a:b]'])
    if ctx.batch == 3:
        # F-C19-1, second shape: ?start hands out the node of a template instance itself (the matcher is asked for a rule
        # called like the template, which does not exist: GrammarError naming it)
        L, r, a = gen.LIT, gen.rule, gen.alt
        G = {'rules': [r('start', [a([['c', 'tm0', [['t', 'N']]]])], mods='?'),
                       r('tm0', [a([['p', 'x'], ['q', ['g', [a([L(','), ['p', 'x']])]], '*', 0, 0]])], mods='?', params=['x'])],
             'terms': [gen.term('N', ['x', '[0-9]+', ''], ex=['7', '42']), gen.term('WS', ['x', ' +', ''], ex=[' '])],
             'ignore': ['WS'], 'start': ['start'], 'alphabet': list('742, ')}
        run_grammar(ctx, G, rng, ['42 , 42 , 7', '7', '7,7'])
        ctx.count('template-root-corpus')
    if ctx.batch == 2:
        run_grammar(ctx, _aliased_recursion(), rng, ['u K u', 'u k', 'u b', 'b K u b', 'u b K u u k', 'k', 'b'])
        ctx.count('aliased-recursion-corpus')
    if ctx.batch == 1:
        run_grammar(ctx, _nested(), rng, ['[7]', '[[7, 42]]', '[7, [42, 7]]', '[[7], [42]]', '[[[7]]]', '{x;}', '{{x; f;}}', '{x; {f;}}', '{{{x;}}}', '[[7]] {{x;}}'])
        ctx.count('nested-corpus')
    if ctx.batch == 0:
        # operator chains of ?-rules next to rules with same-shaped alternatives and other literals, reconstructed in sequence
        run_grammar(ctx, _calc_with_calls(), rng, ['x*x+7;', 'f(x,x,7);', 'x*x+7; f(x,x,7);', '[x|x|7] x+x*x; f(7);', 'f(x+7,x*x); [x*x|7+7];', 'f(x,x,x,x);', '[7|7|7];',
                                                   '(x+7)*x;', 'x*(x+(7));', 'f((x),(x+x)*7);', '((7));'])
        ctx.count('calc-corpus')
    for i in range(PER_BATCH[ctx.tier]):
        if not ctx.time_left():
            ctx.count('stopped-on-time-budget')
            break
        k = i % 10
        if k == 9:
            G = gen_grammar(rng, templates=True)
        elif k in (3, 6):
            G = ws_variant(gen.lalr_friendly(rng, p_perturb=0.0, n_blocks=rng.randint(1, 2)))
        else:
            G = gen_grammar(rng)
        if not G.get('ignore'):
            continue
        run_grammar(ctx, G, rng, sentences(rng, G, 8))


def replay(ctx, case):
    G = case['grammar']
    run_grammar(ctx, G, ctx.rng, (case.get('earlier', []) + [case['input']]) if 'input' in case else sentences(ctx.rng, G, 8), only_parser=case.get('parser'))

"""C11  saved (save/load), cache-served and stand-alone parsers behave like the instance built
directly from the grammar."""
import io, os, sys, shutil, tempfile, importlib.util, itertools
from ..core import STEPS, digest, wall_guard, WallTimeout
from ..common import build
from ..gram import RefGrammar, print_grammar
from .. import gen
from .c08 import ws_variant

USE_STEPS = False
NBATCH = {'quick': 16, 'thorough': 64}
BUDGET_S = {'quick': 90, 'thorough': 180}
PER_BATCH = {'quick': 80, 'thorough': 1500}
FLOORS = {
    'quick': {'distinct_nontrivial': 2500, 'variant:save/load': 3000, 'variant:cache': 3000, 'variant:standalone': 3000, 'cache-served-confirmed': 100,
              'standalone-modules-generated': 100, 'op:parse': 4000, 'op:interactive': 1500, 'op:scan': 1000, 'feature:rejected': 2000,
              'feature:accepted': 2500, 'feature:>100-terminals': 150, 'feature:import': 300, 'feature:template': 200, 'feature:priority': 300,
              'feature:flags': 300, 'feature:bytes': 300, 'feature:multi-start': 200, 'feature:transformer': 200, 'feature:postlex-indenter': 200,
              'feature:keep_all_tokens': 500, 'feature:placeholders-off': 500, 'feature:lexer:basic': 800, 'feature:lexer:contextual': 800},
    'thorough-unused': {'distinct_nontrivial': 50000, 'standalone-modules-generated': 2500},
}
RULE = ("cases = (LALR grammar, option set, operation in {parse, interactive script (accepts() after every token, feed_eof), "
        "scan}, input accepted or rejected) evaluated on four parsers: built directly, restored by Lark.load from Lark.save "
        "output, served from the cache option (confirmed cache-served: load_grammar not called), instantiated from the "
        "module written by lark.tools.standalone.gen_standalone (imported from a temp dir; its own classes compared by name "
        "and attributes); oracle: canonical outcome equal to the direct instance's: tree with every token type, value and "
        "coordinate and node meta, or exception class name with pos_in_stream/line/column/token/expected/accepts/allowed; "
        "non-trivial = grammar using >=2 of {import, template, priority, flags, >100 terminals, placeholders, transformer, "
        "postlex}; distinct by (grammar, options, variant, operation, input)")
ASSUMPTIONS = ["the stand-alone module is generated from /repo's current sources by gen_standalone and executed in-process under a unique module name",
               "Lark.load takes no options, so transformer / postlex variants are compared for cache and stand-alone only",
               "canonicalisation is duck-typed (stand-alone modules carry their own Tree/Token/exception classes)"]


# ------------------------------------------------------------------ duck-typed canonical forms

def canon(t, pos=True, meta=True):
    if t is None:
        return None
    if isinstance(t, str) and hasattr(t, 'type'):
        v = t.value
        if isinstance(v, bytes):
            v = 'b:' + v.decode('latin-1')
        elif not isinstance(v, str):
            v = repr(v)
        return ['T', t.type, v, t.start_pos, t.end_pos, t.line, t.column, t.end_line, t.end_column]
    if hasattr(t, 'data') and hasattr(t, 'children'):
        out = ['N', str(t.data), [canon(c) for c in t.children]]
        m = getattr(t, '_meta', None)
        if m is None or getattr(m, 'empty', True):
            out.append(None)
        else:
            out.append([m.start_pos, m.end_pos, m.line, m.column, m.end_line, m.end_column])
        return out
    if isinstance(t, (list, tuple)):
        return ['L', [canon(c) for c in t]]
    if isinstance(t, (str, int, float, bool)):
        return ['V', t]
    return ['V', repr(t)]


def canon_exc(e):
    d = {'class': type(e).__name__}
    for k in ('pos_in_stream', 'line', 'column'):
        v = getattr(e, k, None)
        if isinstance(v, int):
            d[k] = v
    tok = getattr(e, 'token', None)
    if tok is not None:
        d['token'] = canon(tok) if hasattr(tok, 'type') else repr(tok)
    for k in ('expected', 'allowed'):
        v = getattr(e, k, None)
        if v is not None:
            try:
                d[k] = sorted(getattr(x, 'name', str(x)) for x in v)
            except Exception:
                d[k] = repr(v)
    if type(e).__name__ == 'UnexpectedToken':
        try:
            with wall_guard(20):
                a = e.accepts
            d['accepts'] = sorted(a) if a is not None else None
        except WallTimeout:
            d['accepts'] = 'TIMEOUT'
        except Exception as x:
            d['accepts'] = 'ERR ' + type(x).__name__
    if type(e).__name__ == 'UnexpectedCharacters':
        c = getattr(e, 'char', None)
        d['char'] = c if isinstance(c, str) else repr(c)
    if not any(k in d for k in ('pos_in_stream', 'token', 'expected')):
        d['msg'] = str(e)[:200]
    return d


def run(fn):
    try:
        with wall_guard(60):
            return ['ok', fn()]
    except WallTimeout:
        return ['wall']
    except Exception as e:
        return ['exc', canon_exc(e)]


def op_parse(l, w, start):
    return run(lambda: canon(l.parse(w, start=start)))


def op_interactive(l, w, start):
    def f():
        ip = l.parse_interactive(w, start=start)
        out = []
        last = None
        for t in ip.iter_parse():
            out.append([canon(t), sorted(ip.accepts())])
            last = t
        out[-1:] = out[-1:]           # accepts() before the last token was fed is recorded above
        out.append(sorted(ip.accepts()))
        out.append(canon(ip.feed_eof(last)))
        return out
    return run(f)


def op_scan(l, w, start):
    return run(lambda: [[list(m.range), canon(m.value)] for m in l.scan(w, start=start)])


# ------------------------------------------------------------------ variants

class Variants:
    def __init__(self, ctx, tmp):
        self.ctx, self.tmp = ctx, tmp
        self.n = itertools.count()
        import lark.lark as lk
        self.lk = lk
        if not getattr(lk.load_grammar, '_vlark', False):
            orig = lk.load_grammar

            def counted(*a, **kw):
                CALLS[0] += 1
                return orig(*a, **kw)
            counted._vlark = True
            lk.load_grammar = counted

    def make(self, g, opts, load_kw):
        """-> dict variant -> parser (or ('exc', ...))"""
        from lark import Lark
        out = {}
        kw = dict(opts)
        kw.update(load_kw)
        d = Lark(g, parser='lalr', **kw)
        out['direct'] = d
        if not load_kw:
            buf = io.BytesIO()
            Lark(g, parser='lalr', **opts).save(buf)
            buf.seek(0)
            out['save/load'] = Lark.load(buf)
        path = os.path.join(self.tmp, 'c%d.cache' % next(self.n))
        Lark(g, parser='lalr', cache=path, **kw)
        before = CALLS[0]
        out['cache'] = Lark(g, parser='lalr', cache=path, **kw)
        if CALLS[0] == before:
            self.ctx.count('cache-served-confirmed')
        else:
            self.ctx.count('cache-not-served')
            self.ctx.inconc('second construction was not served from the cache', {'grammar': g, 'opts': {k: repr(v) for k, v in opts.items()}})
        os.unlink(path)
        from lark.tools.standalone import gen_standalone
        src = io.StringIO()
        gen_standalone(Lark(g, parser='lalr', **opts), out=src)
        name = 'vlark_sa_%d_%d' % (os.getpid(), next(self.n))
        mp = os.path.join(self.tmp, name + '.py')
        with open(mp, 'w') as f:
            f.write(src.getvalue())
        spec = importlib.util.spec_from_file_location(name, mp)
        mod = importlib.util.module_from_spec(spec)
        spec.loader.exec_module(mod)
        self.ctx.count('standalone-modules-generated')
        skw = dict(load_kw)
        if 'postlex' in skw:
            skw['postlex'] = make_indenter(mod.Indenter)
        if 'transformer' in skw:
            skw['transformer'] = make_transformer(mod.Transformer, skw['transformer']._names)
        # another instance of the same module built first with other load-time options: what one Lark_StandAlone(...) call
        # was given must not leak into the next one
        decoy = mod.Lark_StandAlone(propagate_positions=not opts.get('propagate_positions', False), debug=True)
        self.ctx.count('standalone-decoy-instances')
        out['standalone'] = mod.Lark_StandAlone(**skw)
        out['standalone-2nd-instance'] = mod.Lark_StandAlone(**skw)
        os.unlink(mp)
        return out


CALLS = [0]


def make_indenter(Base):
    class TreeIndenter(Base):
        NL_type = '_NL'
        OPEN_PAREN_types = []
        CLOSE_PAREN_types = []
        INDENT_type = '_INDENT'
        DEDENT_type = '_DEDENT'
        tab_len = 8
    return TreeIndenter()


def make_transformer(Base, names):
    def mk(name):
        def cb(self, children):
            return [name] + list(children)
        return cb
    T = type('ListT', (Base,), {n: mk(n) for n in names})
    t = T()
    t._names = names
    return t


# ------------------------------------------------------------------ grammars

G_TREE = r'''
?start: _NL* tree
tree: NAME _NL [_INDENT tree+ _DEDENT]
%import common.CNAME -> NAME
%import common.WS_INLINE
%declare _INDENT _DEDENT
%ignore WS_INLINE
_NL: /(\r?\n[\t ]*)+/
'''
T_TREE = ['a\n  b\n  c\n    d\n  e\n', 'a\n', 'a\n    b\n  c\n', 'a\n  b\n c\n', 'a\n  b\n  !', '\n\na\n\tb\n', 'a b\n', '']

G_RICH = r'''
start: stmt+
stmt: "let"i NAME "=" expr ";" -> let
    | "print" list{expr} ";" -> show
    | block
block: "{" stmt* "}"
list{x}: x ("," x)*
?expr: expr "+" term -> add
    | term
?term: NUMBER | NAME | "(" expr ")" | "[" [list{expr}] "]" -> arr | SIGNED
SIGNED.2: /-[0-9]+/
NAME: /[a-z_]+/i
KW.3: "print" | "let"i
%import common.NUMBER
%import common.WS
%ignore WS
'''
T_RICH = ['let x = 1 + a;', 'LET y = [1, b, (c)];', 'print a, b + 2;', '{ let q = -3; print q; }', 'print;', 'let = 1;', 'a +;', '{', 'let x = [1,];', 'print x\n, y;\n{ }', '$', 'let x = 1 + + 2;', '']


# flag sets that are not subsets of each other (the keyword exception compares flag *sets*)
G_FLAGS = r'''
start: (KW | NAME | OP | NUM)+
KW: "if"i | "Else"
NAME: /[a-z]+/s
OP: "and"i
NUM.2: /0x[0-9a-f]+/i | /[0-9]+/
WORD2: /[A-Z]+/m
%ignore /[ \n]+/
'''
T_FLAGS = ['if x', 'IF x', 'If AND y', 'else', 'Else 0XFF', 'iF\nand\n12', 'ELSE', 'x and y', 'AND', '0xg', '']


def many_terminals(rng):
    words = []
    while len(words) < 125:
        w = ''.join(rng.choice('abcdefghij') for _ in range(rng.randint(2, 5)))
        if w not in words:
            words.append(w)
    rules = ['start: item+', 'item: ' + ' | '.join('%s' % ('K%d' % i) for i in range(len(words))) + ' | ID']
    terms = ['K%d%s: "%s"%s' % (i, '.%d' % rng.randint(1, 3) if rng.random() < 0.2 else '', w, 'i' if rng.random() < 0.15 else '') for i, w in enumerate(words)]
    g = '\n'.join(rules + terms + ['ID: /[a-z]+/', '%ignore " "']) + '\n'
    texts = [' '.join(rng.choice(words + ['zz', 'qq']) for _ in range(rng.randint(1, 6))) for _ in range(8)] + ['a1', '', words[0] + words[1], words[3].upper()]
    return g, texts


OPTSETS = [
    {}, {'lexer': 'basic'}, {'keep_all_tokens': True}, {'maybe_placeholders': False}, {'propagate_positions': True},
    {'lexer': 'basic', 'propagate_positions': True, 'keep_all_tokens': True}, {'g_regex_flags': 2}, {'propagate_positions': True, 'maybe_placeholders': False},
]


def feats_of(g, opts, load_kw, extra=()):
    f = set(extra)
    if '%import' in g:
        f.add('import')
    if '{' in g and '}:' in g.replace(' ', ''):
        f.add('template')
    import re
    if re.search(r'^[A-Za-z_]+\.\d+', g, re.M):
        f.add('priority')
    if re.search(r'"i\b|/i\b', g) or opts.get('g_regex_flags'):
        f.add('flags')
    if '[' in g.replace('"["', '').replace("/[", ''):
        f.add('placeholders')
    if opts.get('use_bytes'):
        f.add('bytes')
    if len(opts.get('start', ['start'])) > 1:
        f.add('multi-start')
    if 'transformer' in load_kw:
        f.add('transformer')
    if 'postlex' in load_kw:
        f.add('postlex-indenter')
    if opts.get('keep_all_tokens'):
        f.add('keep_all_tokens')
    if opts.get('maybe_placeholders') is False:
        f.add('placeholders-off')
    f.add('lexer:' + opts.get('lexer', 'contextual'))
    return f


def run_case(ctx, V, g, opts, load_kw, texts, extra_feats=(), ops=('parse', 'interactive', 'scan')):
    case0 = {'grammar': g, 'opts': {k: v for k, v in opts.items()}, 'load_kw': sorted(load_kw)}
    try:
        with wall_guard(120):
            vs = V.make(g, opts, load_kw)
    except WallTimeout:
        ctx.inconc('wall guard while building variants', case0)
        return
    except Exception as e:
        # if the direct build fails nothing can be compared; a failure of a derived variant is a violation
        try:
            from lark import Lark
            Lark(g, parser='lalr', **dict(opts, **load_kw))
        except Exception:
            ctx.count('skipped:direct-build-fails')
            return
        ctx.judged([g, sorted(case0['opts'].items()), 'build'], False, [])
        import traceback
        ctx.violation('derived-variant-cannot-be-built', case0, {'exc': repr(e)[:300], 'tb': traceback.format_exc()[-600:]})
        return
    feats = feats_of(g, opts, load_kw, extra_feats)
    nontriv_g = len(feats & {'import', 'template', 'priority', 'flags', '>100-terminals', 'placeholders', 'transformer', 'postlex-indenter'}) >= 2
    starts = opts.get('start', ['start'])
    d = vs['direct']
    if 'postlex' in load_kw:
        ops = [o for o in ops if o != 'scan']
    for w in texts:
        inp = w.encode('ascii') if opts.get('use_bytes') else w
        for s in starts:
            for op in ops:
                fn = {'parse': op_parse, 'interactive': op_interactive, 'scan': op_scan}[op]
                exp = fn(d, inp, s)
                if exp[0] == 'wall':
                    ctx.inconc('wall guard', dict(case0, input=w))
                    continue
                ctx.count('op:' + op)
                for name, l in vs.items():
                    if name == 'direct':
                        continue
                    got = fn(l, inp, s)
                    ctx.judged([g, sorted(case0['opts'].items()), sorted(load_kw), name, op, s, w], nontriv_g,
                               sorted(feats) + ['accepted' if exp[0] == 'ok' else 'rejected'])
                    ctx.count('variant:' + name)
                    if got != exp:
                        ctx.violation('%s-differs-from-direct:%s' % (name, op), dict(case0, input=w, start=s, variant=name, op=op), {'direct': exp, name: got})
    if ctx.evaluations % 7 == 0:
        ctx.sample({'grammar': g[:600], 'opts': case0['opts'], 'load_kw': sorted(load_kw), 'inputs': texts[:4], 'features': sorted(feats)})


def generated(rng):
    G = ws_variant(gen.prune(gen.lalr_friendly(rng, p_perturb=0.1, prios=False)))
    rg = RefGrammar(G)
    ex = gen.term_examples(rg, G)
    texts = set()
    for s0 in G['start']:
        for _ in range(10):
            s = gen.sample_sentence(rg, rng, ex, start=s0, depth=5)
            if s is not None:
                w = rng.choice([' ', '', '\n']).join(x for _, x in s)
                if len(w) <= 30:
                    texts.add(w)
                    texts.add(gen.mutate(rng, w, [a for a in G['alphabet'] if a != '\n']))
    g = print_grammar(G)
    # exercise imports, priorities and flags in the generated family too
    g = g.replace('WSN: /[ \\n]/\n%ignore WSN\n', '%import common.WS\n%ignore WS\n')
    if rng.random() < 0.5:
        g = g.replace('N: /[0-9]/', 'N.2: /[0-9]/')
    if rng.random() < 0.5:
        g = g.replace('X: "x"', 'X: "x"i')
    return g, sorted(texts)[:14], G['start']


def run_batch(ctx):
    rng = ctx.rng
    tmp = tempfile.mkdtemp(prefix='vlark-c11-')
    V = Variants(ctx, tmp)
    from lark import Transformer
    from lark.indenter import Indenter
    try:
        b = ctx.batch
        # fixed rich cases in every batch, option sets rotate with the batch number
        run_case(ctx, V, G_RICH, dict(OPTSETS[b % len(OPTSETS)]), {}, T_RICH)
        run_case(ctx, V, G_RICH, {'propagate_positions': bool(b & 1)}, {'transformer': make_transformer(Transformer, ['let', 'show', 'block', 'add', 'arr', 'list', 'start'])}, T_RICH)
        run_case(ctx, V, G_TREE, {'propagate_positions': bool(b & 2), 'lexer': ['contextual', 'basic'][b & 1]}, {'postlex': make_indenter(Indenter)}, T_TREE)
        g, texts = many_terminals(rng)
        run_case(ctx, V, g, dict(rng.choice(OPTSETS[:6])), {}, texts, ['>100-terminals'])
        run_case(ctx, V, G_FLAGS, dict(OPTSETS[b % 2]), {}, T_FLAGS)
        run_case(ctx, V, G_RICH.replace('%import common.WS\n%ignore WS', '%ignore /[ \\n]+/'), {'use_bytes': True, 'propagate_positions': True, 'lexer': ['contextual', 'basic'][b & 1]}, {}, [t for t in T_RICH if t.isascii()])
        for i in range(PER_BATCH[ctx.tier]):
            if not ctx.time_left():
                ctx.count('stopped-on-time-budget')
                break
            g, texts, starts = generated(rng)
            opts = dict(rng.choice(OPTSETS))
            if len(starts) > 1:
                opts['start'] = list(starts)
            elif rng.random() < 0.15:
                opts['use_bytes'] = True
            run_case(ctx, V, g, opts, {}, texts)
    finally:
        shutil.rmtree(tmp, ignore_errors=True)


def replay(ctx, case):
    tmp = tempfile.mkdtemp(prefix='vlark-c11-')
    V = Variants(ctx, tmp)
    from lark import Transformer
    from lark.indenter import Indenter
    try:
        lk = {}
        if 'transformer' in case['load_kw']:
            lk['transformer'] = make_transformer(Transformer, ['let', 'show', 'block', 'add', 'arr', 'list', 'start'])
        if 'postlex' in case['load_kw']:
            lk['postlex'] = make_indenter(Indenter)
        run_case(ctx, V, case['grammar'], case['opts'], lk, [case['input']] if 'input' in case else T_RICH, ops=[case['op']] if 'op' in case else ('parse', 'interactive', 'scan'))
    finally:
        shutil.rmtree(tmp, ignore_errors=True)

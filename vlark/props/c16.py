"""C16  embedded transformer == transforming afterwards; the four traversal classes agree (each
callback once per node, children before parents)."""
import copy
from ..core import STEPS, digest, canon_tree
from ..common import build, call
from ..gram import RefGrammar, print_grammar
from .. import gen
from .c08 import ws_variant

NBATCH = {'quick': 16, 'thorough': 64}
BUDGET_S = {'quick': 80, 'thorough': 180}
PER_BATCH = {'quick': 150, 'thorough': 2500}
CLASSES = ['Transformer', 'Transformer_NonRecursive', 'Transformer_InPlace', 'Transformer_InPlaceRecursive']
FLOORS = {
    'quick': {'distinct_nontrivial': 2500, 'embedded-vs-post': 6000, 'traversal-comparisons': 18000, 'callback-calls-logged': 100000,
              'feature:callback-on-node-through-inlining': 1000, 'feature:callback-on-node-through-expand1': 1000, 'feature:callback-on-node-with-placeholder': 500,
              'feature:token-callback': 2000, 'feature:v_args-inline': 1500, 'feature:v_args-tree': 1500, 'feature:alias-callback': 1500,
              'feature:template-callback': 100, 'embedded-inplace-class': 300, 'traversal-comparisons-with-Discard': 8000,
              'feature:discarded-subtree': 1500, 'feature:discarded-token': 1500},
    'thorough-unused': {'distinct_nontrivial': 40000, 'embedded-vs-post': 90000},
}
RULE = ("cases = (LALR grammar with shaping features, generated pure transformer, accepted input); the transformer has callbacks "
        "on a random subset of user rules, aliases, template names and named terminals, bodies drawn from {tagged tuple, child "
        "count, string join, k-th child}, plain / v_args(inline=True) / v_args(tree=True); oracle: "
        "Lark(g, parser='lalr', transformer=T).parse(w) == T.transform(Lark(g, parser='lalr').parse(w)); the four traversal "
        "classes with the same callbacks return equal results on (copies of) the same tree, their call logs hold exactly one "
        "call per node that has a callback and no callback sees an untransformed child that has a callback of its own; the "
        "same again with a third of the callbacks returning Discard; "
        "non-trivial = a callback fired on a node produced through inlining, a ?-rule or with a None placeholder; distinct by "
        "(grammar, transformer spec, input)")
ASSUMPTIONS = ["__default__ and __default_token__ are left at their defaults, no meta arguments; Discard only in the comparison of the four traversal classes (documented as disabled for the embedded mode), never on the root",
               "callbacks are pure; the call log is kept outside the returned values",
               "embedding a Transformer_InPlace* instance is a separate class judged against finding F-C16-1"]


def names_of(G):
    rules, aliases, templates = set(), set(), set()
    for r in G['rules']:
        if r.get('params'):
            if not r['name'].startswith('_'):
                templates.add(r['name'])
        elif not r['name'].startswith('_'):
            rules.add(r['name'])
        for a in r['alts']:
            if a.get('alias'):
                aliases.add(a['alias'])
    # _TERMINALS too: they are filtered in ordinary rules (a pure callback is invisible there) but kept under ! / keep_all
    terms = {t['name'] for t in G.get('terms', []) if t['name'] not in G.get('ignore', [])}
    return rules, aliases, templates, terms


def gen_spec(rng, G):
    rules, aliases, templates, terms = names_of(G)
    spec = {}
    for n in sorted(rules | aliases | templates):
        if rng.random() < 0.7:
            spec[n] = [rng.choice(['tuple', 'tuple', 'count', 'join', 'child']), rng.choice(['plain', 'plain', 'inline', 'tree'])]
    for n in sorted(terms):
        if rng.random() < 0.5:
            spec[n] = [rng.choice(['tok-upper', 'tok-len', 'tok-tuple']), 'token']
    return spec


def gen_dspec(rng, spec):
    """the same callbacks, some of them returning Discard: documented for every traversal class (only the embedded mode is
    excepted), so the four classes must still agree"""
    d = {}
    for n in sorted(spec):
        kind, style = spec[n]
        if rng.random() < 0.35:
            kind = 'tok-discard' if style == 'token' else 'discard'
        d[n] = [kind, style]
    return d


def make_T(base_name, spec, log):
    import lark
    from lark import v_args, Tree, Token, Discard
    Base = getattr(lark.visitors, base_name)
    has_cb = set(k for k, v in spec.items() if v[1] != 'token')

    def body(kind, name, children):
        children = list(children)
        # children-before-parents: no child may still be a Tree whose node has a callback
        for c in children:
            if isinstance(c, Tree) and str(c.data) in has_cb:
                log.append(('UNTRANSFORMED-CHILD', name, str(c.data)))
        if kind == 'discard':
            return Discard
        if kind == 'tuple':
            return (name, tuple(children))
        if kind == 'count':
            return len(children)
        if kind == 'join':
            return name + '(' + ','.join(str(c) if not isinstance(c, Tree) else 'T:' + str(c.data) for c in children) + ')'
        return children[0] if children else None

    ns = {}
    for name, (kind, style) in spec.items():
        if style == 'plain':
            def f(self, children, name=name, kind=kind):
                log.append(('call', name))
                return body(kind, name, children)
        elif style == 'inline':
            def f(self, *children, name=name, kind=kind):
                log.append(('call', name))
                return body(kind, name, children)
            f = v_args(inline=True)(f)
        elif style == 'tree':
            def f(self, tree, name=name, kind=kind):
                log.append(('call', name))
                if not isinstance(tree, Tree):
                    log.append(('TREE-ARG-IS-NOT-A-TREE', name, type(tree).__name__))
                    return body(kind, name, tree if isinstance(tree, list) else [tree])
                # the tag comes from the tree the callback is handed (its .data must be the rule / alias name)
                return body(kind, 'data=' + str(tree.data), tree.children)
            f = v_args(tree=True)(f)
        else:
            def f(self, tok, name=name, kind=kind):
                log.append(('tok', name))
                if kind == 'tok-discard':
                    return Discard
                if kind == 'tok-upper':
                    return tok.update(value=tok.value.upper())
                if kind == 'tok-len':
                    return len(tok)
                return (name, str(tok))
        ns[name] = f
    return type('GenT_' + base_name, (Base,), ns)()


def canon_val(v):
    from lark import Tree, Token
    if isinstance(v, Tree):
        return ['N', str(v.data), [canon_val(c) for c in v.children]]
    if isinstance(v, Token):
        return ['T', v.type, str(v.value)]
    if isinstance(v, (tuple, list)):
        return [type(v).__name__, [canon_val(c) for c in v]]
    return ['V', repr(v)]


def node_features(tree, spec, rg_names):
    """which shaping situations do the nodes with callbacks come from"""
    from lark import Tree
    f = set()
    for st in tree.iter_subtrees():
        n = str(st.data)
        if n in spec:
            if any(c is None for c in st.children):
                f.add('callback-on-node-with-placeholder')
            if n in rg_names['expand1']:
                f.add('callback-on-node-through-expand1')
            if n in rg_names['with_inlined']:
                f.add('callback-on-node-through-inlining')
            if n in rg_names['aliases']:
                f.add('alias-callback')
            if n in rg_names['templates']:
                f.add('template-callback')
            if spec[n][1] == 'inline':
                f.add('v_args-inline')
            if spec[n][1] == 'tree':
                f.add('v_args-tree')
    return f


def count_nodes(tree, spec):
    from lark import Tree, Token
    n = {}
    for st in tree.iter_subtrees():
        d = str(st.data)
        if d in spec and spec[d][1] != 'token':
            n[d] = n.get(d, 0) + 1
        for c in st.children:
            if isinstance(c, Token) and c.type in spec and spec[c.type][1] == 'token':
                n[c.type] = n.get(c.type, 0) + 1
    return n


def run_grammar(ctx, G, rng, n_specs, texts):
    from lark import Lark
    text = print_grammar(G)
    st, plain = build(ctx, text, parser='lalr')
    if st != 'ok':
        ctx.count('skipped:construction-' + st)
        return
    rules, aliases, templates, terms = names_of(G)
    rg_names = {'aliases': aliases, 'templates': templates,
                'expand1': {r['name'] for r in G['rules'] if '?' in r.get('mods', '')} | {a['alias'] for r in G['rules'] if '?' in r.get('mods', '') for a in r['alts'] if a.get('alias')},
                'with_inlined': {r['name'] for r in G['rules'] if any(it[0] == 'r' and it[1].startswith('_') for a in r['alts'] for it in a['items'])}}
    trees = []
    for w in texts:
        try:
            t = plain.parse(w)
        except Exception:
            continue
        if hasattr(t, 'iter_subtrees'):       # a ?start rule may return a bare token or None: nothing to transform
            trees.append((w, t))
    if not trees:
        ctx.count('skipped:no-accepted-text')
        return
    for _ in range(n_specs):
        spec = gen_spec(rng, G)
        if not spec:
            continue
        case0 = {'grammar': G, 'spec': spec}
        dspec = gen_dspec(rng, spec)
        log0 = []
        T0 = make_T('Transformer', spec, log0)
        st, emb = build(ctx, text, parser='lalr', transformer=T0)
        if st != 'ok':
            ctx.violation('construction-with-embedded-transformer-fails', case0, {'status': st, 'exc': emb if st == 'exc' else None})
            continue
        # finding F-C16-1 class: the same callbacks embedded through an in-place transformer
        logi = []
        Ti = make_T(rng.choice(['Transformer_InPlace', 'Transformer_InPlaceRecursive']), spec, logi)
        st, embi = build(ctx, text, parser='lalr', transformer=Ti)
        for w, tree in trees:
            case = dict(case0, input=w)
            feats = node_features(tree, spec, rg_names)
            if any(v[1] == 'token' for v in spec.values()):
                feats.add('token-callback')
            nontriv = bool(feats & {'callback-on-node-through-inlining', 'callback-on-node-through-expand1', 'callback-on-node-with-placeholder'})
            # ---- embedded vs post
            del log0[:]
            post = call(ctx, 'transform', T0.transform, copy.deepcopy(tree), raw=True)
            post_log = sorted(log0)
            del log0[:]
            embd = call(ctx, 'parse', emb.parse, w, raw=True)
            emb_log = sorted(log0)
            ctx.judged([text, spec, w, 'embedded'], nontriv, sorted(feats))
            ctx.count('embedded-vs-post')
            ctx.count('callback-calls-logged', len(post_log) + len(emb_log))
            cp = [post[0], canon_val(post[1]) if post[0] == 'ok' else post[1]]
            ce = [embd[0], canon_val(embd[1]) if embd[0] == 'ok' else embd[1]]
            if cp != ce:
                ctx.violation('embedded-transformer-differs-from-transform-afterwards', case, {'embedded': ce, 'post': cp})
                continue
            if emb_log != post_log:
                # not a violation: embedded terminal callbacks fire on shift, also for tokens that are filtered out of
                # the tree afterwards (e.g. a literal that coincides with a named terminal); invisible for pure callbacks
                ctx.count('embedded-call-log-differs(informational)')
            # ---- four traversal classes on copies of the same tree
            expect_calls = count_nodes(tree, spec)
            results = {}
            for cls in CLASSES:
                lg = []
                T = make_T(cls, spec, lg)
                r = call(ctx, 'transform', T.transform, copy.deepcopy(tree), raw=True)
                results[cls] = [r[0], canon_val(r[1]) if r[0] == 'ok' else r[1]]
                ctx.count('traversal-comparisons')
                ctx.count('callback-calls-logged', len(lg))
                ctx.judged([text, spec, w, cls], nontriv, [])
                bad = [x for x in lg if x[0] not in ('call', 'tok')]
                if bad:
                    ctx.violation('callback-sees-untransformed-child:%s' % cls, dict(case, cls=cls), {'log': bad[:5]})
                    break
                calls = {}
                for k, n in lg:
                    calls[n] = calls.get(n, 0) + 1
                if calls != expect_calls:
                    ctx.violation('callback-not-called-exactly-once-per-node:%s' % cls, dict(case, cls=cls), {'calls': calls, 'nodes': expect_calls})
                    break
                if results[cls] != results['Transformer']:
                    ctx.violation('traversal-classes-disagree:%s' % cls, dict(case, cls=cls), {'Transformer': results['Transformer'], cls: results[cls]})
                    break
            # ---- the four classes again, with some callbacks returning Discard
            if str(tree.data) in dspec and dspec[str(tree.data)][0] == 'discard':
                ctx.count('skipped:Discard-on-the-root')       # "won't appear in the parent": the root has none
            elif any(v[0].endswith('discard') for v in dspec.values()):
                dres = {}
                for cls in CLASSES:
                    lg = []
                    T = make_T(cls, dspec, lg)
                    r = call(ctx, 'transform', T.transform, copy.deepcopy(tree), raw=True)
                    dres[cls] = [r[0], canon_val(r[1]) if r[0] == 'ok' else r[1]]
                    ctx.count('traversal-comparisons-with-Discard')
                    ctx.judged([text, dspec, w, cls, 'discard'], nontriv, [])
                    calls = {}
                    for k, n in lg:
                        if k in ('call', 'tok'):
                            calls[n] = calls.get(n, 0) + 1
                    dcase = dict(case, cls=cls, dspec=dspec)
                    if calls != expect_calls:
                        ctx.violation('with-Discard:callback-not-called-exactly-once-per-node:%s' % cls, dcase, {'calls': calls, 'nodes': expect_calls})
                        break
                    if dres[cls] != dres['Transformer']:
                        ctx.violation('with-Discard:traversal-classes-disagree:%s' % cls, dcase, {'Transformer': dres['Transformer'], cls: dres[cls]})
                        break
                if any(v[0] == 'discard' for k, v in dspec.items()) and any(str(st_.data) in dspec and dspec[str(st_.data)][0] == 'discard' for st_ in tree.iter_subtrees()):
                    ctx.count('feature:discarded-subtree')
                if any(v[0] == 'tok-discard' for v in dspec.values()):
                    ctx.count('feature:discarded-token')
            # ---- embedded in-place transformer (separate class)
            if st == 'ok':
                del logi[:]
                r = call(ctx, 'parse', embi.parse, w, raw=True)
                ci = [r[0], canon_val(r[1]) if r[0] == 'ok' else r[1]]
                ctx.count('embedded-inplace-class')
                ctx.judged([text, spec, w, 'embedded-inplace'], False, [])
                if ci != cp:
                    ctx.violation('embedded-in-place-transformer-differs-from-transform-afterwards', dict(case, cls=type(Ti).__name__), {'embedded': ci, 'post': cp}, 'F-C16-1')
        if ctx.evaluations % 11 == 0:
            ctx.sample({'grammar': text, 'spec': spec, 'inputs': [w for w, _ in trees[:3]]})


def sentences(rng, G, n):
    rg = RefGrammar(G)
    ex = gen.term_examples(rg, G)
    out = set()
    for _ in range(n * 3):
        s = gen.sample_sentence(rg, rng, ex, depth=rng.choice([3, 5, 6]))
        if s is None:
            break
        w = ' '.join(x for _, x in s)
        if len(w) <= 60:
            out.add(w)
        if len(out) >= n:
            break
    return sorted(out)


def run_batch(ctx):
    rng = ctx.rng
    from .c13 import RICH
    for i in range(PER_BATCH[ctx.tier]):
        if not ctx.time_left():
            ctx.count('stopped-on-time-budget')
            break
        k = i % 3
        if k == 0:
            G = ws_variant(gen.prune(gen.lalr_friendly(rng, p_perturb=0.05)))
        elif k == 1:
            G = gen.prune(gen.ebnf(rng, n_rules=rng.randint(2, 4), p_ignore=1.0))
            if not G['ignore']:
                continue
        else:
            G = ws_variant(RICH)
        run_grammar(ctx, G, rng, 3, sentences(rng, G, 6))


def replay(ctx, case):
    G = case['grammar']
    rng = ctx.rng
    texts = [case['input']] if 'input' in case else sentences(rng, G, 6)
    # the spec is replayed by monkeypatching the generator
    global gen_spec, gen_dspec
    old, oldd = gen_spec, gen_dspec
    gen_spec = lambda rng, G: case['spec']
    if 'dspec' in case:
        gen_dspec = lambda rng, spec: case['dspec']
    try:
        run_grammar(ctx, G, rng, 1, texts)
    finally:
        gen_spec, gen_dspec = old, oldd

"""C05  ambiguity='resolve' returns a priority-optimal derivation and is deterministic (repeated
calls, fresh instances, fresh processes under different PYTHONHASHSEED values)."""
import os, sys, json, subprocess
from ..core import STEPS, digest, canon_tree
from ..common import build, call, basic_tokens, named_types
from ..gram import RefGrammar, print_grammar, duplicate_empty_alternatives, colliding_optionals, has_directly_empty_alternative
from .. import ref as R, gen
from .c01 import model as c01_model

NBATCH = {'quick': 12, 'thorough': 32}
BUDGET_S = {'quick': 80, 'thorough': 180}
PER_BATCH = {'quick': 60, 'thorough': 600}
HASHSEEDS = {'quick': [1, 2, 3], 'thorough': [1, 2, 3, 5, 8, 13, 21]}
FLAKY_IS_VIOLATION = True
FLOORS = {
    'quick': {'distinct_nontrivial': 500, 'feature:prio-normal': 200, 'feature:prio-invert': 200, 'feature:prio-none': 100,
              'feature:terminal-priorities': 60, 'feature:empty-alt-precedence': 50, 'feature:even-alternatives': 100,
              'hashseed-comparisons': 8000, 'feature:repeat-call': 2000, 'feature:fresh-instance': 500, 'corpus': 4},
    'thorough-unused': {'distinct_nontrivial': 8000, 'feature:prio-normal': 3000, 'feature:prio-invert': 3000,
                 'feature:terminal-priorities': 800, 'hashseed-comparisons': 400000, 'corpus': 4},
}
RULE = ("cases = (grammar with signed rule/terminal priorities, priority mode, Earley lexer, ambiguous input, hash seed); "
        "oracle: tree in {shape(D)}; on grammars without empty productions and without derivation cycles the best total "
        "priority among derivations shaping to the returned tree == max (normal) / min (invert) over all derivations; with "
        "empty productions: no node uses the empty alternative of a rule where a non-empty alternative of that rule "
        "derives the same span; the canonical tree is identical on a second call, on a fresh instance and in fresh "
        "processes under other PYTHONHASHSEED values; non-trivial = input whose derivations have >=2 distinct totals; "
        "distinct by (grammar, mode, lexer, input)")
ASSUMPTIONS = ["reference enumerator/shaper (vlark/ref.py); total priority = sum of priorities of the user rules applied (+ terminal priorities under dynamic lexers)",
               "hash seeds are sampled (quick 4, thorough 16 values incl. 0), not exhausted",
               "keep_all_tokens=True so that shaping loses as little information as possible when attributing a priority to a tree"]
AUX_ONLY = bool(os.environ.get('VLARK_AUX_ONLY'))


def empty_alt_precedence_ok(rg, chart, d, span_start=0):
    """the stated built-in precedence on one reference derivation (plain BNF families, where the
    reference productions are the grammar's alternatives): an empty production of N is used at
    position i only if no non-empty production of N derives the empty span (i, i)"""
    def walk(d, i):
        """returns end position, or None if the precedence is violated below"""
        if d[0] == 't':
            return d[4]
        _, name, pidx, kids = d
        nt = rg.nts[name]
        if not nt.prods[pidx].rhs:
            for p in nt.prods:
                if p.rhs and chart._feasible(p.rhs, 0, i, i):
                    return None
            return i
        pos = i
        for k in kids:
            pos = walk(k, pos)
            if pos is None:
                return None
        return pos
    return walk(d, span_start) is not None


def run_grammar(ctx, G, family, lexers, inputs, modes=('normal', 'invert', None)):
    text = print_grammar(G)
    # duplicate / colliding alternatives: lark keeps one of the identical expansions, so the set of derivations is not what
    # the AST says - the reference-based oracles do not judge such grammars, but the choice must still be deterministic
    det_only = duplicate_empty_alternatives(G) or colliding_optionals(G)
    if det_only:
        ctx.count('determinism-only:colliding-alternatives')
    rg = RefGrammar(G)
    cyclic = rg.is_cyclic()
    named = named_types(rg)
    exact = not cyclic and not has_directly_empty_alternative(G)
    even = any(len(r['alts']) % 2 == 0 and r.get('prio') for r in G['rules'])
    tprio = any(t.get('prio') for t in G.get('terms', []))
    opts = {'keep_all_tokens': True, 'maybe_placeholders': True}
    for lexer in lexers:
        for mode in modes:
            kw = dict(opts, parser='earley', lexer=lexer, ambiguity='resolve', priority=mode)
            st, l = build(ctx, text, **kw)
            if st != 'ok':
                ctx.count('construction-' + st)
                continue
            l2 = None
            for wi, w in enumerate(inputs):
                case = {'grammar': G, 'text': text, 'lexer': lexer, 'mode': mode, 'input': w, 'family': family}
                out = call(ctx, 'parse', l.parse, w)
                if out[0] in ('wall',):
                    ctx.inconc('wall guard', case)
                    continue
                if out[0] != 'ok':
                    if out[0] == 'budget':
                        ctx.violation('no-termination', case, {})
                    continue
                key = digest([text, lexer, mode, w])
                ctx.aux[key] = [digest(out[1]), {'text': text, 'lexer': lexer, 'mode': mode, 'input': w}]
                if AUX_ONLY:
                    continue
                # determinism inside the process: second call, fresh instance
                out2 = call(ctx, 'parse', l.parse, w)
                ctx.count('feature:repeat-call')
                if out2 != out:
                    ctx.violation('differs-on-second-call', case, {'first': out, 'second': out2})
                if wi % 2 == 0 or family == 'nullable-ties':
                    if l2 is None:
                        st2, l2 = build(ctx, text, **kw)
                        KEEP.append(l2)           # earlier instances stay alive: new objects get new addresses
                        del KEEP[:-8]
                    out3 = call(ctx, 'parse', l2.parse, w)
                    ctx.count('feature:fresh-instance')
                    if out3 != out:
                        ctx.violation('differs-on-fresh-instance', case, {'first': out, 'fresh': out3})
                    if family == 'nullable-ties':
                        st3, l3 = build(ctx, text, **kw)
                        out4 = call(ctx, 'parse', l3.parse, w) if st3 == 'ok' else out
                        ctx.count('feature:fresh-instance')
                        if out4 != out:
                            ctx.violation('differs-on-fresh-instance', case, {'first': out, 'fresh': out4})
                if cyclic or det_only:
                    ctx.count('cyclic-determinism-only' if cyclic else 'colliding-determinism-only')
                    ctx.judged([text, lexer, mode, w, 'determinism'], False, ['family:' + family])
                    continue
                member, inp = c01_model(rg, lexer, w)
                if not member:
                    ctx.count('lark-accepts-nonmember(C01 scope)')
                    continue
                try:
                    chart = R.Chart(rg, inp)
                    ds = chart.derivations(cap=300)
                except (R.TooMany, RecursionError):
                    ctx.count('skipped-too-many-derivations')
                    continue
                sh = R.Shaper(rg, inp, True, True)
                by_shape = {}
                by_shape_d = {}
                with_terms = lexer != 'basic'
                for d in ds:
                    t = R.freeze(sh.shape(d))
                    by_shape.setdefault(t, []).append(R.deriv_priority(rg, d, with_terms))
                    by_shape_d.setdefault(t, []).append(d)
                totals = {p for ps in by_shape.values() for p in ps}
                got = R.erase_anon_types(out[1], named)
                feats = ['family:' + family, 'prio-' + str(mode).lower()]
                if even:
                    feats.append('even-alternatives')
                if tprio and with_terms:
                    feats.append('terminal-priorities')
                if not exact:
                    feats.append('empty-alt-precedence')
                ctx.judged([text, lexer, mode, w], len(totals) >= 2, feats)
                if got not in by_shape:
                    ctx.violation('resolve-not-a-derivation:' + lexer, case, {'got': out[1]})
                    continue
                if not exact and lexer == 'basic' and family.startswith(('bnf', 'corpus')):
                    ctx.monitor('empty-alt-precedence-checked')
                    if not any(empty_alt_precedence_ok(rg, chart, d) for d in by_shape_d[got]):
                        ctx.violation('empty-alternative-preferred-over-nonempty:' + lexer, case, {'got': out[1]})
                if mode is None or not exact:
                    continue
                if mode == 'normal':
                    best, mine = max(totals), max(by_shape[got])
                else:
                    best, mine = min(totals), min(by_shape[got])
                if mine != best:
                    ctx.violation('not-priority-optimal:%s:%s' % (mode, lexer), case,
                                  {'returned_total': mine, 'optimum': best, 'all_totals': sorted(totals), 'got': out[1]})
    if not AUX_ONLY:
        ctx.sample({'grammar': text, 'family': family, 'inputs': inputs[:5]})


KEEP = []


def prio_regex_grammar(rng):
    G = gen.regex_grammar(rng)
    for t in G['terms']:
        if t['name'] not in G['ignore']:
            t['prio'] = rng.choice([None, -1, 0, 1, 2])
    # aliases: alternatives of one rule then shape differently, so a derivation attributed to the wrong alternative shows
    n = 0
    for r in G['rules']:
        for a in r['alts']:
            if rng.random() < 0.5:
                a['alias'] = 'al%d' % n
                n += 1
    return G


a, b = gen.LIT('a'), gen.LIT('b')
_r = lambda n: ['r', n]
CORPUS = [
    # witness of defect 1 (invert with an even number of alternatives)
    ('invert-even-alts', {'rules': [gen.rule('start', [gen.alt([b, _r('r1')]), gen.alt([_r('r0'), _r('r0')])], prio=-2),
                                    gen.rule('r0', [gen.alt([a, _r('r1')]), gen.alt([_r('r1'), _r('r1')]), gen.alt([b])], prio=0),
                                    gen.rule('r1', [gen.alt([_r('r2')]), gen.alt([a])], prio=-1),
                                    gen.rule('r2', [gen.alt([_r('start')]), gen.alt([_r('r0'), _r('r0')])], prio=1)]},
     ('basic', 'dynamic'), ['aab', 'ab', 'aa', 'aba', 'baab']),
    ('two-alts', {'rules': [gen.rule('start', [gen.alt([_r('x')]), gen.alt([_r('y')])]), gen.rule('x', [gen.alt([a]), gen.alt([a, a])], prio=2),
                            gen.rule('y', [gen.alt([a]), gen.alt([a, a])], prio=1)]}, ('basic', 'dynamic', 'dynamic_complete'), ['a', 'aa']),
    ('EE-prio', {'rules': [gen.rule('start', [gen.alt([_r('start'), _r('start')]), gen.alt([_r('p')]), gen.alt([_r('n')])]),
                           gen.rule('p', [gen.alt([a]), gen.alt([a, a])], prio=3), gen.rule('n', [gen.alt([a])], prio=-1)]},
     ('basic', 'dynamic'), ['a', 'aa', 'aaa', 'aaaa']),
    ('term-prio', {'rules': [gen.rule('start', [gen.alt([['t', 'W']]), gen.alt([['t', 'A'], ['t', 'B']])])],
                   'terms': [gen.term('W', ['x', '[ab]+', ''], prio=1), gen.term('A', ['x', 'a', ''], prio=2), gen.term('B', ['x', 'b', ''], prio=2)]},
     ('dynamic', 'dynamic_complete'), ['ab']),
    # rules with priorities whose alternatives contain [..]: lark gives such alternatives an options object of their own
    # (the placeholder positions), which priority='invert' has to reach as well
    ('invert-with-placeholders', {'rules': [gen.rule('start', [gen.alt([_r('x')]), gen.alt([_r('y')])]),
                                            gen.rule('x', [gen.alt([['m', [gen.alt([['t', 'X']])]], ['t', 'Y']])], prio=2),
                                            gen.rule('y', [gen.alt([['m', [gen.alt([['t', 'X']])]], ['t', 'Y']])], prio=1)],
                                  'terms': [gen.term('X', ['s', 'x', '']), gen.term('Y', ['s', 'y', ''])]}, ('basic', 'dynamic'), ['xy', 'y']),
    ('invert-with-placeholders-2', {'rules': [gen.rule('start', [gen.alt([['q', _r('item'), '+', 0, 0]])]), gen.rule('item', [gen.alt([_r('lo')]), gen.alt([_r('hi')])]),
                                              gen.rule('lo', [gen.alt([['t', 'W'], ['m', [gen.alt([['t', 'COMMA']])]]]), gen.alt([['t', 'W'], ['t', 'W']])], prio=-3),
                                              gen.rule('hi', [gen.alt([['m', [gen.alt([['t', 'SIGN']])]], ['t', 'W']]), gen.alt([['t', 'COMMA']])], prio=5)],
                                    'terms': [gen.term('W', ['s', 'w', '']), gen.term('COMMA', ['s', ',', '']), gen.term('SIGN', ['s', '+', ''])]},
     ('basic', 'dynamic'), ['w,+w', 'ww', 'w,w', '+w,']),
    ('empty-vs-nonempty', {'rules': [gen.rule('start', [gen.alt([_r('x'), _r('x')])]), gen.rule('x', [gen.alt([]), gen.alt([a])], prio=1)]},
     ('basic', 'dynamic'), ['a', 'aa', '']),
]


COLLIDING = {'rules': [gen.rule('start', [gen.alt([['q', ['r', 'item'], '?', 0, 0], ['q', ['r', 'item'], '?', 0, 0], ['q', ['r', 'item'], '?', 0, 0]])]),
                       gen.rule('item', [gen.alt([gen.LIT('a')]), gen.alt([gen.LIT('a'), gen.LIT('a')]), gen.alt([gen.LIT('a'), gen.LIT('a'), gen.LIT('a')])])],
             'terms': [], 'ignore': [], 'start': ['start'], 'alphabet': ['a']}


def run_batch(ctx):
    rng = ctx.rng
    n = PER_BATCH[ctx.tier]
    L3 = ('basic', 'dynamic', 'dynamic_complete')
    if ctx.batch == 1:
        run_grammar(ctx, COLLIDING, 'corpus:colliding-ties', ('basic', 'dynamic'), ['a', 'aa', 'aaa', 'aaaa', 'aaaaa'], ('normal',))
    if ctx.batch == 0:
        for name, G, lexers, inputs in CORPUS:
            G = dict({'terms': [], 'ignore': [], 'start': ['start']}, **G)
            run_grammar(ctx, G, 'corpus:' + name, lexers, inputs)
            ctx.count('corpus')
    for i in range(n):
        if not ctx.time_left():
            ctx.count('stopped-on-time-budget')
            break
        for _ in range(6):
            G = gen.bnf_tiny(rng, max_ts=2, prios=True, p_empty=0 if i % 3 else 1)
            if i % 4 == 0 or not RefGrammar(G).is_cyclic():
                break
        run_grammar(ctx, G, 'bnf-tiny-prio', ('basic', 'dynamic') if i % 2 else ('dynamic_complete',), gen.all_strings(G['alphabet'], 4, cap=31, rng=rng))
        if i % 2 == 1:
            # no priorities at all, many empty rules: every choice is a tie, so only the tie-breaks decide (determinism)
            G = gen.bnf_tiny(rng, max_ts=2, prios=False, p_empty=2)
            run_grammar(ctx, G, 'nullable-ties', ('basic', 'dynamic'), gen.all_strings(G['alphabet'], 4, cap=20, rng=rng), ('normal',))
        if i % 2 == 0:
            G = prio_regex_grammar(rng)
            run_grammar(ctx, G, 'regex-prio', ('dynamic',), gen.random_strings(rng, G['alphabet'], 25, 6), ('normal', 'invert'))
        if i % 3 == 0:
            G = gen.ebnf(rng, p_rec=0.3, n_rules=rng.randint(2, 4), allow_prio=True, allow_templates=False)
            for r in G['rules']:
                if r['prio'] is None and rng.random() < 0.5:
                    r['prio'] = rng.choice([-2, -1, 1, 2, 3])
            rg = RefGrammar(G)
            ex = gen.term_examples(rg, G)
            ins = set()
            for _ in range(25):
                s = gen.sample_sentence(rg, rng, ex, depth=4)
                if s is not None:
                    w = ''.join(x for _, x in s)
                    if len(w) <= 8:
                        ins.add(w)
            run_grammar(ctx, G, 'ebnf-prio', ('basic', 'dynamic'), sorted(ins)[:16])


def replay(ctx, case):
    if 'hashseeds' in case:
        # determinism across processes: re-run the single parse under both hash seeds
        prog = ("import sys, json; sys.path.insert(0, %r); sys.path.insert(0, %r)\n"
                "from lark import Lark\nfrom vlark.core import canon_tree\n"
                "c = json.loads(sys.argv[1])\n"
                "l = Lark(c['text'], parser='earley', lexer=c['lexer'], ambiguity='resolve', priority=c['mode'], keep_all_tokens=True)\n"
                "print(json.dumps(canon_tree(l.parse(c['input']))))\n") % (os.environ.get('VLARK_REPO', '/repo'), os.path.dirname(os.path.dirname(os.path.dirname(os.path.abspath(__file__)))))
        outs = []
        for hs in case['hashseeds']:
            env = dict(os.environ, PYTHONHASHSEED=str(hs))
            p = subprocess.run([sys.executable, '-c', prog, json.dumps(case)], capture_output=True, text=True, env=env, timeout=300)
            outs.append(p.stdout.strip() or p.stderr[-300:])
        ctx.judged([case['text'], case['input']], True)
        if len(set(outs)) > 1:
            ctx.violation('differs-across-hash-seeds', case, {'outputs': outs})
        return
    run_grammar(ctx, case['grammar'], case['family'], (case['lexer'],), [case['input']], (case['mode'],))


def selftest(ctx):
    G = dict({'terms': [], 'ignore': [], 'start': ['start']}, **CORPUS[1][1])
    rg = RefGrammar(G)
    inp, _ = basic_tokens(rg, 'aa')
    ds = R.Chart(rg, inp).derivations()
    assert sorted(R.deriv_priority(rg, d) for d in ds) == [1, 2], [R.deriv_priority(rg, d) for d in ds]
    ctx.monitor('reference-selftest')

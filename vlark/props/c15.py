"""C15  str, bytes and TextSlice inputs agree (values, shapes, error class and position; positions
are coordinates in the underlying buffer)."""
import re
from ..core import STEPS, digest, canon_tree
from ..common import build, call
from .. import ref as R, gen
from . import c06

NBATCH = {'quick': 16, 'thorough': 64}
BUDGET_S = {'quick': 80, 'thorough': 180}
PER_BATCH = {'quick': 40, 'thorough': 700}
LEXERS = c06.LEXERS
FLOORS = {
    'quick': dict({'distinct_nontrivial': 6000, 'repr:bytes': 6000, 'repr:window': 8000, 'repr:complete-slice': 3000, 'feature:window-mid-line': 2500,
                   'feature:window-after-newline': 1500, 'feature:window-at-0': 1000, 'feature:neighbour-would-extend-token': 2500,
                   'feature:rejected': 4000, 'feature:accepted': 6000, 'feature:newline-before-token(bytes)': 2500,
                   'dynamic-partial-slice-refused': 200, 'context-sensitive-class': 100, 'shaped-grammar-texts': 400, 'shaped-corpus': 9, 'repr:window-with-negative-indices': 6000},
                  **{'judged:%s/%s' % pl: 1000 for pl in LEXERS}),
    'thorough-unused': dict({'distinct_nontrivial': 100000, 'repr:bytes': 80000, 'repr:window': 100000}, **{'judged:%s/%s' % pl: 15000 for pl in LEXERS}),
}
RULE = ("cases = (grammar with newline-capable kept / ignored / filtered terminals, parser/lexer pair, text s accepted or "
        "rejected, representation): bytes with use_bytes=True, TextSlice(s, 0, len(s)), TextSlice(buf, a, a+len(s)) for buffers "
        "with hostile neighbours (text that would extend the first/last token, window starting mid-line / after a newline / "
        "at 0); oracle: canonical outcome (tree with every token coordinate and meta, or exception class + position fields) "
        "equals the str outcome - identical for bytes (values decoded), shifted by the window start for slices (offsets + a, "
        "lines + newlines before a, columns on the first line + column of a); non-trivial = window with a>0 not at a line "
        "start, or bytes input with a newline before a token; distinct by (grammar, engine, text, representation, window)")
ASSUMPTIONS = ["ASCII inputs only, as the statement says",
               "terminals whose regexps look outside their match (\\b, look-behind, ^, $ with m flag) form a separate class judged against finding F-C15-1",
               "dynamic lexers accept only complete slices (documented TypeError otherwise, counted)"]

CTX_TERMS = [(r'/\bfoo\b/', 'foo'), (r'/(?<![a-z])bar/', 'bar'), (r'/^go/m', 'go'), (r'/end$/m', 'end'), (r'/(?<=x)y/', 'y')]


def shift_tok(t, a, dl, dc):
    """token of the substring parse -> expected token of the window parse"""
    if t is None or t[0] != 'T':
        return t
    _, typ, val, s, e, line, col, el, ec = t
    if s is None:
        return t
    return ['T', typ, val, s + a, (e + a) if e is not None else None, line + dl, col + (dc if line == 1 else 0),
            (el + dl) if el is not None else None, (ec + (dc if el == 1 else 0)) if ec is not None else None]


def shift_tree(t, a, dl, dc):
    if t is None:
        return None
    if t[0] == 'T':
        return shift_tok(t, a, dl, dc)
    if t[0] == 'N':
        out = ['N', t[1], [shift_tree(c, a, dl, dc) for c in t[2]]]
        if len(t) > 3:
            m = t[3]
            out.append(None if m is None else [m[0] + a, m[1] + a, m[2] + dl, m[3] + (dc if m[2] == 1 else 0), m[4] + dl, m[5] + (dc if m[4] == 1 else 0)])
        return out
    return t


def shift_exc(x, a, dl, dc):
    d = dict(x)
    if isinstance(d.get('pos_in_stream'), int) and d['pos_in_stream'] >= 0:
        d['pos_in_stream'] += a
        if isinstance(d.get('line'), int) and d['line'] > 0:
            if d['line'] == 1 and isinstance(d.get('column'), int):
                d['column'] += dc
            d['line'] += dl
    if isinstance(d.get('token'), list):
        d['token'] = shift_tok(d['token'], a, dl, dc)
    return d


def unbytes(t):
    """canonical outcome of a bytes parse -> same with values decoded"""
    if isinstance(t, list):
        if len(t) >= 3 and t[0] == 'T' and isinstance(t[2], str) and t[2].startswith('b:'):
            return ['T', t[1], t[2][2:]] + [unbytes(x) for x in t[3:]]
        return [unbytes(x) for x in t]
    if isinstance(t, dict):
        return {k: (unbytes(v) if k != 'char' else (v[2:-1] if isinstance(v, str) and v.startswith("b'") else v)) for k, v in t.items()}
    return t


def norm_exc(o):
    if o[0] == 'exc':
        d = dict(o[1])
        d.pop('msg', None)
        d.pop('accepts', None) if d.get('accepts') == 'BUDGET' else None
        return ['exc', d]
    return o


def run_text(ctx, g, gflags, engines, w, rng, ctx_class=False, only_repr=None):
    from lark import TextSlice
    for (parser, lexer), (l, lbytes) in engines.items():
        base = norm_exc(call(ctx, 'parse', l.parse, w, pos=True, meta=True))
        if base[0] in ('wall', 'budget'):
            ctx.inconc('budget/wall on the str parse', {'grammar': g, 'text': w})
            continue
        feats0 = ['accepted' if base[0] == 'ok' else 'rejected']
        dyn = lexer.startswith('dynamic')
        case0 = {'grammar': g, 'gflags': gflags, 'engine': [parser, lexer], 'text': w, 'ctx_class': ctx_class}
        # ---- bytes
        if lbytes is not None and (only_repr in (None, 'bytes')):
            got = norm_exc(call(ctx, 'parse', lbytes.parse, w.encode('ascii'), pos=True, meta=True))
            got = unbytes(got)
            nt = '\n' in w[:-1]
            ctx.judged([g, gflags, parser, lexer, w, 'bytes'], nt, feats0 + (['newline-before-token(bytes)'] if nt else []))
            ctx.count('repr:bytes')
            ctx.count('judged:%s/%s' % (parser, lexer))
            if got != base:
                ctx.violation('bytes-differs-from-str:%s/%s' % (parser, lexer), dict(case0, repr='bytes'), {'str': base, 'bytes': got})
        # ---- complete slice
        if only_repr in (None, 'complete-slice'):
            got = norm_exc(call(ctx, 'parse', l.parse, TextSlice(w, 0, len(w)), pos=True, meta=True))
            ctx.judged([g, gflags, parser, lexer, w, 'complete-slice'], False, feats0)
            ctx.count('repr:complete-slice')
            if dyn:
                # documented: TextSlice only with lexer='basic' or 'contextual'
                if got[0] == 'exc' and got[1]['class'] == 'TypeError':
                    ctx.count('dynamic-partial-slice-refused')
                elif got != base:
                    ctx.violation('complete-TextSlice-differs-from-str:%s/%s' % (parser, lexer), dict(case0, repr='complete-slice'), {'str': base, 'slice': got})
            elif got != base:
                ctx.violation('complete-TextSlice-differs-from-str:%s/%s' % (parser, lexer), dict(case0, repr='complete-slice'), {'str': base, 'slice': got})
        # ---- windows
        if only_repr not in (None, 'window'):
            continue
        for pre, post in windows(rng, w):
            buf = pre + w + post
            a = len(pre)
            if a == 0 and not post:
                continue
            out = call(ctx, 'parse', l.parse, TextSlice(buf, a, a + len(w)), pos=True, meta=True)
            if dyn:
                if out[0] == 'exc' and out[1]['class'] == 'TypeError':
                    ctx.count('dynamic-partial-slice-refused')
                else:
                    ctx.violation('dynamic-lexer-accepts-partial-slice', dict(case0, repr='window', window=[pre, post]), {'outcome': out})
                continue
            got = norm_exc(out)
            # the same window spelled with negative indices / None (documented as supported)
            e_ = a + len(w)
            alt = TextSlice(buf, (a - len(buf)) if a < len(buf) else a, (e_ - len(buf)) if e_ < len(buf) else None)
            if (alt.start, alt.end) != (a, e_):
                ctx.violation('negative-indices-denote-another-window', dict(case0, repr='window', window=[pre, post]), {'window': [a, e_], 'got': [alt.start, alt.end]})
            else:
                got_neg = norm_exc(call(ctx, 'parse', l.parse, alt, pos=True, meta=True))
                ctx.count('repr:window-with-negative-indices')
                if got_neg != got:
                    ctx.violation('window-with-negative-indices-differs:%s/%s' % (parser, lexer), dict(case0, repr='window', window=[pre, post]), {'positive': got, 'negative': got_neg})
            dl = pre.count('\n')
            dc = a - (pre.rfind('\n') + 1)
            exp = ['ok', shift_tree(base[1], a, dl, dc)] if base[0] == 'ok' else ['exc', shift_exc(base[1], a, dl, dc)]
            if base[0] == 'exc' and base[1].get('token_type') == '$END' and isinstance(base[1].get('token'), list) and base[1]['token'][4] is None:
                # nothing was lexed at all: $END is the synthetic Token('$END', '', 0, 1, 1) in every representation
                exp = base
            feats = list(feats0)
            if a == 0:
                feats.append('window-at-0')
            elif pre.endswith('\n'):
                feats.append('window-after-newline')
            else:
                feats.append('window-mid-line')
            if (pre and pre[-1].isalnum()) or (post and post[0].isalnum()):
                feats.append('neighbour-would-extend-token')
            ctx.judged([g, gflags, parser, lexer, w, 'window', pre, post], a > 0 and not pre.endswith('\n'), feats)
            ctx.count('repr:window')
            ctx.count('judged:%s/%s' % (parser, lexer))
            if ctx_class:
                ctx.count('context-sensitive-class')
            if got != exp:
                fid = None
                if ctx_class:
                    # F-C15-1: the difference disappears when the neighbouring characters are replaced by ones for which
                    # the assertion reads the same as at the edge of a stand-alone string
                    neutral = call(ctx, 'parse', l.parse, TextSlice('\n' * len(pre) + w + '\n' * len(post), a, a + len(w)), pos=False)
                    plain = call(ctx, 'parse', l.parse, w, pos=False)
                    if norm_exc(neutral)[0] == norm_exc(plain)[0] and (neutral[0] != 'ok' or neutral[1] == plain[1]):
                        fid = 'F-C15-1'
                ctx.violation('window-differs-from-substring:%s/%s' % (parser, lexer), dict(case0, repr='window', window=[pre, post]),
                              {'expected(shifted substring result)': exp, 'window': got}, fid)


def windows(rng, w):
    pres = ['', 'ab', 'zz\n', 'q\n\n  ', 'foo bar\nx', '12', '<', 'x\r\n', '\n', '\nab', '\n ', ' ', 'a\nb\nc ']
    posts = ['', 'cd', '\nrest', '9', '>', ' tail\n']
    out = []
    for _ in range(3):
        out.append((rng.choice(pres), rng.choice(posts)))
    return out


def gen_ctx_grammar(rng):
    sp, word = rng.choice(CTX_TERMS)
    g = 'start: (W | X)+\nW: %s\nX: /[xz]/\n%%ignore / +/\n' % sp

    def text(rng):
        return ' '.join(rng.choice([word, word, 'x', 'z']) for _ in range(rng.randint(1, 4)))
    return g, 0, text


def build_engines(ctx, g, gflags, only=None):
    engines = {}
    for parser, lexer in LEXERS:
        if only and (parser, lexer) != tuple(only):
            continue
        kw = dict(parser=parser, lexer=lexer, propagate_positions=True, g_regex_flags=gflags)
        st, l = build(ctx, g, **kw)
        st2, lb = build(ctx, g, use_bytes=True, **kw)
        if st != 'ok':
            ctx.count('construction-%s:%s/%s' % (st, parser, lexer))
            continue
        engines[(parser, lexer)] = (l, lb if st2 == 'ok' else None)
    return engines


def shaped_batch(ctx, rng, G, texts):
    """grammars with tree structure (?-rules, inlined rules, filtered tokens around sub-trees): the meta of every node - whose
    computation looks at offsets, e.g. 'container' offsets that are 0 in a substring and not in a window - must agree too"""
    from ..gram import print_grammar
    g = print_grammar(G)
    engines = build_engines(ctx, g, 0)
    for w in texts:
        if w.strip(' \n') and w.isascii():
            run_text(ctx, g, 0, engines, w, rng)
            ctx.count('shaped-grammar-texts')


def run_batch(ctx):
    rng = ctx.rng
    if ctx.batch == 0:
        for G, texts in c06._meta_corpus():
            shaped_batch(ctx, rng, G, texts)
            ctx.count('shaped-corpus')
    for i in range(PER_BATCH[ctx.tier]):
        if not ctx.time_left():
            ctx.count('stopped-on-time-budget')
            break
        if i % 4 == 1:
            from ..gram import RefGrammar
            G = gen.ebnf(rng, p_rec=0.1, p_ignore=1.0, allow_templates=True)
            for t in G['terms']:
                if t['name'] == 'WS':
                    t['pat'], t['ex'] = ['x', '[ \\n]+', ''], [' ', '\n', ' \n']
            if G['ignore']:
                rg = RefGrammar(G)
                ex = gen.term_examples(rg, G)
                ws = set()
                for _ in range(8):
                    s_ = gen.sample_sentence(rg, rng, ex, depth=5)
                    if s_ is not None:
                        ws.add(rng.choice(['', ' ', '\n']).join(x for _, x in s_)[:40])
                shaped_batch(ctx, rng, G, sorted(ws))
        g, gflags, kind, textgen = c06.gen_grammar(rng)
        engines = build_engines(ctx, g, gflags)
        texts = []
        for _ in range(6):
            w = textgen(rng)
            if not w.strip(' \n\r\t') or not w.isascii():
                continue
            texts.append(w)
            texts.append(gen.mutate(rng, w, list('abx1 \n<>()[];')))
        for w in texts:
            run_text(ctx, g, gflags, engines, w, rng)
        if i % 8 == 0:
            g, gflags, textgen = gen_ctx_grammar(rng)
            engines = build_engines(ctx, g, gflags)
            for _ in range(6):
                run_text(ctx, g, gflags, {k: v for k, v in engines.items() if not k[1].startswith('dynamic')}, textgen(rng), rng, ctx_class=True, only_repr='window')
        if i == 0:
            ctx.sample({'grammar': g, 'texts': texts[:3], 'windows': windows(rng, 'w')})
    ctx.sample({'grammar': g, 'example': texts[:2] if texts else None})


def replay(ctx, case):
    engines = build_engines(ctx, case['grammar'], case['gflags'], only=case['engine'])
    import random

    class OneWindow(random.Random):
        pass
    w = case['text']
    if case.get('repr') == 'window':
        pre, post = case['window']
        global windows
        old = windows
        windows = lambda rng, w: [(pre, post)]
        try:
            run_text(ctx, case['grammar'], case['gflags'], engines, w, ctx.rng, ctx_class=case.get('ctx_class', False), only_repr='window')
        finally:
            windows = old
    else:
        run_text(ctx, case['grammar'], case['gflags'], engines, w, ctx.rng, only_repr=case.get('repr'))

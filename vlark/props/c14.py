"""C14  scan(): leftmost-longest, non-overlapping matches consistent with parse()."""
from ..core import STEPS, digest, canon_tree, canon_token
from ..common import build, call
from ..gram import RefGrammar, print_grammar
from .. import gen
from .c08 import ws_variant
from .c15 import shift_tree, unbytes

NBATCH = {'quick': 16, 'thorough': 64}
BUDGET_S = {'quick': 80, 'thorough': 180}
PER_BATCH = {'quick': 90, 'thorough': 1500}
FLOORS = {
    'quick': {'distinct_nontrivial': 800, 'texts': 3000, 'matches-checked': 4000, 'window-parses-by-oracle': 100000, 'feature:>=2-matches': 800,
              'feature:skipped-region-with-start-terminal': 800, 'feature:nullable-start': 100, 'feature:has-ignore': 2000, 'feature:lexer:basic': 1000,
              'feature:lexer:contextual': 1000, 'repr:bytes': 500, 'repr:window': 500, 'feature:candidate-failed-then-later-match': 500,
              'feature:match-shorter-than-consumed-tokens': 200},
    'thorough-unused': {'distinct_nontrivial': 15000, 'texts': 50000, 'matches-checked': 70000},
}
RULE = ("cases = (LALR grammar, lexer in {basic, contextual}, text): texts are concatenations of sampled sentences, near misses "
        "and junk with hostile joints (no separator, ignored text, characters that extend tokens), length <= 40; oracle: an "
        "emulation of leftmost-longest scanning built only from public calls - for every start offset p the in-context "
        "token stream (parse_interactive(TextSlice(text,p,n)).iter_parse()), for every token end q (longest first) "
        "parse(TextSlice(text,p,q)) - must yield exactly scan()'s list of (start, end, value) incl. all token coordinates and "
        "meta; plus: matches increasing and non-overlapping, first/last token of a keep_all_tokens scan sit exactly on the "
        "match boundaries, bytes == str, scan(TextSlice(buf,a,b)) == scan(buf[a:b]) shifted; non-trivial = text with >=2 "
        "matches and a skipped region that contains an occurrence of a start terminal; distinct by (grammar, lexer, text)")
ASSUMPTIONS = ["expected values come from Lark.parse on TextSlice windows (C15 judges windows against substrings)",
               "a snippet counts as parseable-from-p only if its tokens are a prefix of the in-context token stream from p (scan lexes in context: maximal munch may look past the snippet)",
               "empty matches are not matches (nullable start symbols yield nothing)"]


def setup(ctx):
    from lark import parser_frontends as pf
    STEPS.watch('_scan', pf.ParsingFrontend._scan)


def in_context_tokens(l, text, p, n, start):
    from lark import TextSlice
    toks = []
    try:
        ip = l.parse_interactive(TextSlice(text, p, n), start=start)
        for t in ip.iter_parse():
            toks.append(t)
    except Exception:
        pass
    return toks


def start_matchers(l, lexer, start):
    """compiled regexps of the terminals with which a match can begin: every non-ignored terminal (basic lexer), or the
    non-ignored terminals the parser can take in its start state (contextual lexer) - "a parse attempt at every position
    where a match could begin" (docs of Lark.scan)"""
    import re
    ign = set(l.ignore_tokens)
    names = None
    if lexer == 'contextual':
        ip = l.parse_interactive('', start=start)
        names = {k for k in ip.choices() if k.isupper()}
    out = []
    for t in l.terminals:
        if t.name in ign or (names is not None and t.name not in names):
            continue
        src = t.pattern.to_regexp()
        if l.options.use_bytes:
            src = src.encode('latin-1')
        out.append(re.compile(src, l.options.g_regex_flags))
    return out


def ref_scan(ctx, l, lexer, text, a, b, start, stats):
    """leftmost-longest emulation over [a, b) of text, from public calls only.  A candidate is a position where a start
    terminal matches and where lexing in context yields a first token that starts right there (a position from which the
    lexer first skips ignored text is not the start of anything; the positions inside that text are tried in turn)."""
    from lark import TextSlice
    out = []
    pos = a
    ms = start_matchers(l, lexer, start)
    while pos < b:
        found = None
        for p in range(pos, b):
            if not any(m.match(text, p, b) for m in ms):
                continue
            toks = in_context_tokens(l, text, p, b, start)
            if not toks:
                stats['failed-candidates'] = stats.get('failed-candidates', 0) + 1
                continue
            if toks[0].start_pos != p:
                # the lexer skipped ignored text first: nothing starts *at* p.  The positions inside that ignored text are
                # candidates of their own ("no position skipped between matches starts a snippet that parses"; lark's
                # test_scan_start_inside_ignored_regex_span treats them as real starts too)
                stats['candidates-starting-with-ignored-text'] = stats.get('candidates-starting-with-ignored-text', 0) + 1
                continue
            ends = []
            for t in toks:
                if t.end_pos is not None and (not ends or t.end_pos > ends[-1]):
                    ends.append(t.end_pos)
            for q in reversed(ends):
                ctx.count('window-parses-by-oracle')
                try:
                    r = l.parse(TextSlice(text, p, q), start=start)
                except Exception:
                    continue
                found = (toks[0].start_pos, q, r, len(ends), ends.index(q) + 1)
                break
            if found:
                break
            stats['failed-candidates'] = stats.get('failed-candidates', 0) + 1
        if not found:
            break
        out.append(found)
        pos = found[1]
    return out


def tokens_of(t, out):
    if t is None:
        return out
    if t[0] == 'T':
        out.append(t)
    elif t[0] in ('N', 'L'):
        for c in (t[2] if t[0] == 'N' else t[1]):
            tokens_of(c, out)
    return out


def check_text(ctx, g, engines, text, start, feats0, nullable):
    from lark import TextSlice
    n = len(text)
    for lexer, (l, lk, lb) in engines.items():
        case = {'grammar': g, 'lexer': lexer, 'text': text, 'start': start}
        try:
            got = [(list(m.range), canon_tree(m.value, True, True)) for m in STEPS.run('scan', 30_000_000, lambda: list(l.scan(text, start=start)))]
        except Exception as e:
            ctx.judged([g, lexer, text], False, feats0)
            ctx.violation('scan-raises:%s' % lexer, case, {'exc': repr(e)[:300]})
            continue
        stats = {}
        ref = ref_scan(ctx, l, lexer, text, 0, n, start, stats)
        if stats.get('candidates-starting-with-ignored-text'):
            ctx.count('feature:candidate-starts-with-ignored-text')
        exp = [([p, q], canon_tree(r, True, True)) for p, q, r, _, _ in ref]
        feats = list(feats0) + ['lexer:' + lexer]
        if len(exp) >= 2:
            feats.append('>=2-matches')
        if stats.get('failed-candidates'):
            feats.append('skipped-region-with-start-terminal')
            if exp:
                feats.append('candidate-failed-then-later-match')
        if any(k < m for _, _, _, m, k in ref):
            feats.append('match-shorter-than-consumed-tokens')
        if nullable:
            feats.append('nullable-start')
        nt = len(exp) >= 2 and bool(stats.get('failed-candidates'))
        ctx.judged([g, lexer, text], nt, feats)
        ctx.count('texts')
        ctx.count('matches-checked', len(got))
        if len(got) >= 2 and ctx.evaluations % 200 == 0:
            ctx.sample({'grammar': g, 'lexer': lexer, 'text': text, 'spans': [s for s, _ in got]})
        if [s for s, _ in got] != [s for s, _ in exp]:
            ctx.violation('scan-spans-differ-from-leftmost-longest-emulation:%s' % lexer, case, {'scan': [s for s, _ in got], 'emulation': [s for s, _ in exp]})
            continue
        if got != exp:
            i = [x != y for x, y in zip(got, exp)].index(True)
            ctx.violation('scan-value-differs-from-parse-of-the-window:%s' % lexer, case, {'span': got[i][0], 'scan': got[i][1], 'parse(TextSlice)': exp[i][1]})
            continue
        # order / overlap
        prev = 0
        bad = None
        for (s, e), _ in got:
            if not (prev <= s < e <= n):
                bad = [s, e]
            prev = e
        if bad:
            ctx.violation('matches-overlap-or-unordered:%s' % lexer, case, {'span': bad, 'all': [s for s, _ in got]})
            continue
        # boundaries sit on tokens (seen through a keep_all_tokens instance)
        try:
            gk = [(list(m.range), canon_tree(m.value, True, False)) for m in lk.scan(text, start=start)]
        except Exception as e:
            gk = None
        if gk is not None:
            if [s for s, _ in gk] != [s for s, _ in got]:
                ctx.violation('keep_all_tokens-changes-the-spans:%s' % lexer, case, {'plain': [s for s, _ in got], 'keep_all': [s for s, _ in gk]})
                continue
            for (s, e), v in gk:
                tk = tokens_of(v, [])
                if tk and (min(t[3] for t in tk) != s or max(t[4] for t in tk) != e):
                    ctx.violation('match-boundary-not-on-its-first/last-token:%s' % lexer, case, {'span': [s, e], 'tokens': tk[:1] + tk[-1:]})
                    break
        # bytes
        if lb is not None and text.isascii():
            try:
                gb = [(list(m.range), unbytes(canon_tree(m.value, True, True))) for m in lb.scan(text.encode('ascii'), start=start)]
            except Exception as e:
                gb = 'ERR ' + repr(e)[:200]
            ctx.count('repr:bytes')
            if gb != got:
                ctx.violation('scan-bytes-differs-from-str:%s' % lexer, case, {'str': [s for s, _ in got], 'bytes': gb if isinstance(gb, str) else [s for s, _ in gb]})
        # window of a larger buffer
        rng = ctx.rng
        pre, post = rng.choice(['', '#', 'q\n ', '\n\n']), rng.choice(['', '#', '\n'])
        if pre or post:
            buf = pre + text + post
            a = len(pre)
            try:
                gw = [(list(m.range), canon_tree(m.value, True, True)) for m in l.scan(TextSlice(buf, a, a + n), start=start)]
            except Exception as e:
                gw = 'ERR ' + repr(e)[:200]
            dl, dc = pre.count('\n'), a - (pre.rfind('\n') + 1)
            ew = [([s + a, e + a], shift_tree(v, a, dl, dc)) for (s, e), v in got]
            ctx.count('repr:window')
            if gw != ew:
                ctx.violation('scan-of-window-differs-from-scan-of-substring:%s' % lexer, dict(case, window=[pre, post]),
                              {'substring(shifted)': [s for s, _ in ew], 'window': gw if isinstance(gw, str) else [s for s, _ in gw]})


FIXED = [
    # an ignored terminal (comment) that starts like a start terminal and can hide whole sentences: after a failed
    # attempt that began by skipping the comment, the positions inside the comment must still be tried
    ('start: DASH? NUM\nDASH: "-"\nNUM: /[0-9]+/\nCOMMENT: /--[^\\n]*\\n?/\n%ignore COMMENT\n%ignore " "\n',
     ['-- -3\n-x', '--5\n-', '-- 1 2\n-', '---7\n--', '-- 4\n5', '--\n-', '-1', '- 2 --c\n', '--9', '-x', '-- -8\n- -']),
    # an ignored terminal that begins like a start terminal: the search finds "-" but the lexer skips "->"
    ('start: DASH? NUM\nDASH: "-"\nNUM: /[0-9]+/\nARROW: "->"\n%ignore ARROW\n%ignore " "\n', ['-5', '->5', '5', '- 5', '-> -5', '->', '-', '5->6', '-->7', '->->8']),
    # an attempt that begins by skipping ignored text and then SUCCEEDS must not hide the sentences inside that text
    ('start: "a" | "x" "y"\n%ignore /xab/\n', ['xaba', 'xab', 'xabxy', 'xxab', 'xaby', 'axab a']),
    ('start: "/" WORD "/"\nWORD: /[a-z]+/\n%ignore /\\/\\/[^\\n]*/\n%ignore /\\s+/\n', ['// x\n/ab/', '//\n/a/', '/a/ // /b/\n/c/', '// /a/']),
    # keywords vs identifiers, in-context maximal munch
    ('start: "let" NAME "=" NUM ";"\nNAME: /[a-z]+/\nNUM: /[0-9]+/\n%ignore / +/\n',
     ['let x = 1;', 'let y=22;', 'letx = 1;', 'let = 3;', 'let let = 1;', 'x', ';', '1', 'let a = b;', '  ', 'let z = 9 ;']),
    # nested brackets, optional trailing part (longest vs shorter complete prefix)
    ('start: "(" [start ("," start)*] ")" tail?\ntail: "!" "!"\n%ignore / +/\n',
     ['()', '(())', '((),())', '()!!', '()!', '(', ')', '((', '( ( ) , ( ) ) !!', ',', '!', '())', '(()']),
    # overlapping first terminals; A vs AB
    ('start: A | B "c" | A A "d"\nA: "a"\nB: "ab"\n%ignore " "\n', ['a', 'abc', 'aad', 'ab', 'aa', 'abx', 'c', 'd', 'a a d', 'ab c', 'b']),
    # nullable start
    ('start: item*\nitem: "<" WORD ">"\nWORD: /[a-z]+/\n%ignore /[ \\n]+/\n', ['<a>', '<a><b>', '<a> <b>\n<c>', '<', '<a', 'a>', '<>', 'zz', '<a>x<b>', '\n']),
    # comments as ignored text next to matches
    ('start: NUM ("+" NUM)*\nNUM: /[0-9]+/\nCOMMENT: /#[^\\n]*/\n%ignore COMMENT\n%ignore /[ \\n]+/\n',
     ['1+2', '1 + 2 + 3', '1 +', '+ 2', '1 # c\n+ 2', '#1+2\n', '7', '1+2+', 'x', '12 34', '# only\n', '1 +# c\n 2']),
    # priorities / statements with newlines (line counting across matches)
    ('start: stmt+\nstmt: NAME ":" value _NL\nvalue: NAME | NUM\nNAME: /[a-z]+/\nNUM: /[0-9]+/\n_NL: /\\n+/\n%ignore / +/\n',
     ['a: b\n', 'a:1\nb:2\n', 'a: \n', 'a b\n', ': x\n', 'k: v', 'x: y\n\n\nz: 3\n', '\n', 'a:1\n?\nb:2\n']),
]


def mix_text(rng, pool, junk):
    parts = []
    for _ in range(rng.randint(1, 5)):
        r = rng.random()
        if r < 0.65:
            parts.append(rng.choice(pool))
        else:
            parts.append(rng.choice(junk))
        parts.append(rng.choice(['', '', ' ', '  ', '\n']))
    t = ''.join(parts)
    return t[:40]


def run_grammar(ctx, g, pool, junk, rng, n_texts, nullable, only=None, texts=None):
    engines = {}
    for lexer in ('basic', 'contextual'):
        if only and lexer != only:
            continue
        st, l = build(ctx, g, parser='lalr', lexer=lexer, propagate_positions=True)
        st2, lk = build(ctx, g, parser='lalr', lexer=lexer, keep_all_tokens=True)
        st3, lb = build(ctx, g, parser='lalr', lexer=lexer, propagate_positions=True, use_bytes=True)
        if st != 'ok' or st2 != 'ok':
            ctx.count('skipped:construction-' + st)
            continue
        engines[lexer] = (l, lk, lb if st3 == 'ok' else None)
    feats0 = ['has-ignore'] if '%ignore' in g else []
    for w in (texts if texts is not None else [mix_text(rng, pool, junk) for _ in range(n_texts)]):
        if not ctx.time_left():
            return
        check_text(ctx, g, engines, w, 'start', feats0, nullable)


def run_batch(ctx):
    rng = ctx.rng
    for i in range(PER_BATCH[ctx.tier]):
        if not ctx.time_left():
            ctx.count('stopped-on-time-budget')
            break
        g, pool = FIXED[(i + ctx.batch) % len(FIXED)]
        run_grammar(ctx, g, pool, ['x', ';', '(', ')', '!', '=', '9', 'let', '<', '>', '#', '+', ':', 'ab', 'a'], rng, 8, 'item*' in g)
        # generated LALR grammars
        G = ws_variant(gen.prune(gen.lalr_friendly(rng, p_perturb=0.1, n_blocks=rng.randint(1, 2))))
        rg = RefGrammar(G)
        ex = gen.term_examples(rg, G)
        pool = set()
        for _ in range(12):
            s = gen.sample_sentence(rg, rng, ex, depth=4)
            if s is not None:
                w = rng.choice(['', ' ']).join(x for _, x in s)
                if 0 < len(w) <= 14:
                    pool.add(w)
                    pool.add(gen.mutate(rng, w, [a for a in G['alphabet'] if a != '\n']))
        if pool:
            run_grammar(ctx, print_grammar(G), sorted(pool), [a for a in G['alphabet'] if a not in ' \n'], rng, 6, 'start' in rg.nullable())
    ctx.sample({'grammar': FIXED[0][0], 'texts': ['let x = 1;letx = 1; let y=22;']})


def replay(ctx, case):
    g = case['grammar']
    run_grammar(ctx, g, [], [], ctx.rng, 0, False, only=case['lexer'], texts=[case['text']] * (4 if 'window' in case else 1))

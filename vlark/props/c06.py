"""C06  token and tree positions are exact source coordinates (all lexers, str and bytes)"""
import re
from ..core import STEPS, digest, canon_tree
from ..common import build, call
from .. import ref as R

NBATCH = {'quick': 16, 'thorough': 64}
BUDGET_S = {'quick': 80, 'thorough': 180}
PER_BATCH = {'quick': 36, 'thorough': 600}
LEXERS = [('lalr', 'basic'), ('lalr', 'contextual'), ('earley', 'basic'), ('earley', 'dynamic'), ('earley', 'dynamic_complete')]
FLOORS = {
    'quick': dict({'distinct_nontrivial': 5000, 'feature:bytes': 800, 'feature:newline-in-ignored': 1500, 'feature:newline-in-kept': 800,
                   'feature:newline-in-filtered': 500, 'feature:crlf': 300, 'feature:meta-nodes-checked': 6000, 'feature:ebnf-meta-trees': 2500, 'meta-corpus': 7,
                   'feature:token-ends-with-newline': 500, 'monitor:LineCounter.feed-contract': 5000},
                  **{'judged:%s/%s' % pl: 800 for pl in LEXERS}),
    'thorough-unused': dict({'distinct_nontrivial': 80000, 'feature:bytes': 12000, 'feature:meta-nodes-checked': 50000},
                     **{'judged:%s/%s' % pl: 12000 for pl in LEXERS}),
}
RULE = ("cases = (grammar template x newline spelling x role {ignored, kept, filtered, inside block}, parser/lexer, str|bytes, "
        "accepted text with newlines); oracle per token: buffer[start_pos:end_pos]==value, (line, column)==count of newlines "
        "before start_pos, (end_line, end_column) per the lexer family's convention, tokens ordered and disjoint; per tree node "
        "with propagate_positions: meta == (start of first, end of last) token of the same node in a keep_all_tokens parse "
        "(filtered tokens included); secondary contract on LineCounter.feed; non-trivial = text with a newline before or "
        "inside a checked token; distinct by (grammar, options, engine, text)")
ASSUMPTIONS = ["R6 position arithmetic (count of \\n) in vlark/ref.py",
               "meta oracle assumes the keep_all_tokens parse of these unambiguous template grammars has the same rule structure",
               "for bytes input a token's text is token.value"]

# newline-capable spellings of a "whitespace" class.  `excl` = characters the spelling must not eat in
# the template it is used in; (regex, needs_dotall_global)
WS_SPELLINGS = [
    r'/\s+/', r'/[ \n]+/', r'/\n| /', r'/[^a-z0-9<>;\'.]+/', r'/[\x00-\x20]+/', r'/(?s:[^a-z0-9<>;\'.])/', r'/\012| /',
    r'/\x0a+| +/', r'/(\r?\n)+| +/', r'/\W+/', r'/[\s]+/', r'/(?: |\n|\r|\t)+/', r'/ +|\u000a/', r'/[\D]+/',
]
NL_SPELLINGS = [r'/\n+/', r'/(\r?\n)+/', r'/\n[ ]*/', r'/[\n]+/', r'"\n"', r'/\x0a/', r'/\012+/', r'/[\x0a\x0d]+/', r'/(?:\r\n|\n)/', r'/\s*\n/']
BLOCK_SPELLINGS = [(r'/<[^>]*>/', 0), (r'/<(?s:.)*?>/', 0), (r'/<(.|\n)*?>/', 0), (r'/<.*?>/s', 0), (r'/<.*?>/', re.S), (r'/<[\x00-\x3d\x3f-\x7f]*>/', 0), (r'/<[\s\w]*>/', 0)]


def uses_W(sp):
    return r'\W' in sp or r'\D' in sp


def gen_grammar(rng):
    """-> (grammar text, g_regex_flags, kind, text generator)"""
    kind = rng.choice(['ignored', 'kept', 'filtered', 'block', 'ignored'])
    gflags = 0
    if kind == 'ignored':
        sp = rng.choice(WS_SPELLINGS)
        g = 'start: item+\nitem: WORD | NUM | WORD NUM -> pair\nWORD: /[a-z]+/\nNUM: /[0-9]+/\nWS: %s\n%%ignore WS\n' % sp
        if r'\D' in sp:
            g = 'start: item+\nitem: NUM | NUM "0" NUM -> pair\nNUM: /[1-9]+/\nWS: %s\n%%ignore WS\n' % sp

            def text(rng):
                return ''.join(rng.choice(['12', '3', '405', ' ', '\n', '\n\n', ' \n ', 'x', '\r\n']) for _ in range(rng.randint(1, 8)))
            return g, gflags, kind, text

        def text(rng):
            return ''.join(rng.choice(['ab', 'x', '12', ' ', '\n', '\n\n', ' \n ', '\r\n', '\t'] if (r'\s' in sp or r'\W' in sp or '^' in sp or r'\x00' in sp or r'\r' in sp) else ['ab', 'x', '12', ' ', '\n', '\n\n', ' \n ']) for _ in range(rng.randint(1, 9)))
        return g, gflags, kind, text
    if kind == 'kept':
        sp = rng.choice(NL_SPELLINGS)
        g = 'start: (WORD | NL | para)+\npara: "(" WORD NL WORD ")"\nWORD: /[a-z]+/\nNL: %s\n%%ignore / +/\n' % sp
    elif kind == 'filtered':
        sp = rng.choice(NL_SPELLINGS)
        g = 'start: line (_NL line)* _NL?\nline: WORD+ | "(" line _NL line ")" -> nested\nWORD: /[a-z]+/\n_NL: %s\n%%ignore / +/\n' % sp
    else:
        sp, gflags = rng.choice(BLOCK_SPELLINGS)
        ws = rng.choice([r'/\s+/', r'/[ \n]+/'])
        g = 'start: (WORD | BLOCK | grp)+\ngrp: "[" WORD BLOCK "]"\nWORD: /[a-z]+/\nBLOCK: %s\n%%ignore %s\n' % (sp, ws)

        def text(rng):
            parts = []
            for _ in range(rng.randint(1, 7)):
                r = rng.random()
                if r < 0.35:
                    parts.append(rng.choice(['ab', 'x']))
                elif r < 0.7:
                    parts.append('<' + ''.join(rng.choice(['a', ' ', '\n', 'b\n', '\n\n']) for _ in range(rng.randint(0, 4))) + '>')
                elif r < 0.8:
                    parts.append('[x <a\n\nb>]')
                else:
                    parts.append(rng.choice([' ', '\n', ' \n']))
            return ''.join(parts)
        return g, gflags, kind, text
    crlf = r'\r' in sp or r'\x0d' in sp or r'\s' in sp

    def text(rng):
        nl = ['\n', '\n', '\n\n'] + (['\r\n'] if crlf else []) + (['\n  '] if '[ ]' in sp else [])
        parts = []
        n = rng.randint(1, 6)
        for i in range(n):
            parts.append(' '.join(rng.choice(['ab', 'x', 'foo']) for _ in range(rng.randint(1, 3))))
            if kind == 'filtered' and rng.random() < 0.2:
                parts[-1] = '(%s%sx y)' % (parts[-1], rng.choice(nl))
            if kind == 'kept' and rng.random() < 0.2:
                parts[-1] += ' (a%sb)' % rng.choice(nl)
            if i < n - 1 or rng.random() < 0.5:
                parts.append(rng.choice(nl))
        return ''.join(parts)
    return g, gflags, kind, text


def tokens_of(t, out):
    if t is None:
        return out
    if t[0] == 'T':
        out.append(t)
    elif t[0] == 'N':
        for c in t[2]:
            tokens_of(c, out)
    return out


def check_token(buf, tok, family_dynamic):
    """R6.  tok = ['T', type, value, start, end, line, col, end_line, end_col]"""
    _, typ, val, s, e, line, col, el, ec = tok
    if None in (s, e, line, col, el, ec):
        return 'missing-coordinate'
    piece = buf[s:e]
    if isinstance(buf, bytes):
        piece = 'b:' + piece.decode('latin-1')
    if piece != val:
        return 'slice-differs-from-value'
    if (line, col) != R.line_col(buf, s):
        return 'line/column'
    if family_dynamic and e > s:
        l2, c2 = R.line_col(buf, e - 1)
        exp_end = (l2, c2 + 1)
    else:
        exp_end = R.line_col(buf, e)
    if (el, ec) != exp_end:
        return 'end_line/end_column'
    return None


def check_meta(buf, normal, keepall, problems, counter, family_dynamic):
    """normal / keepall: canonical trees (pos=True, meta=True) of the same text"""
    if normal is None or normal[0] != 'N':
        return
    kt = tokens_of(keepall, [])
    meta = normal[3]
    if kt and meta is not None:
        counter[0] += 1
        first = min(kt, key=lambda t: t[3])
        last = max(kt, key=lambda t: t[4])
        exp = [first[3], last[4], first[5], first[6], last[7], last[8]]
        if meta != exp:
            problems.append(('meta-span', {'node': normal[1], 'meta': meta, 'expected': exp}))
    elif kt and meta is None:
        problems.append(('meta-missing-on-nonempty-node', {'node': normal[1]}))
    nk = [c for c in normal[2] if c is not None and c[0] == 'N']
    kk = [c for c in keepall[2] if c is not None and c[0] == 'N']
    if len(nk) != len(kk) or [c[1] for c in nk] != [c[1] for c in kk]:
        problems.append(('structure-differs-with-keep_all_tokens', None))
        return
    # children spans ordered, disjoint, nested
    prev_end = None
    for c in nk:
        m = c[3]
        if m is None:
            continue
        if meta is not None and not (meta[0] <= m[0] and m[1] <= meta[1]):
            problems.append(('child-span-not-nested', {'parent': meta, 'child': m}))
        if prev_end is not None and m[0] < prev_end:
            problems.append(('children-spans-overlap-or-unordered', {'child': m}))
        prev_end = m[1]
    for a, b in zip(nk, kk):
        check_meta(buf, a, b, problems, counter, family_dynamic)


def install_contract(ctx):
    import lark.lexer as lx
    LC = lx.LineCounter
    if getattr(LC, '_vlark', False):
        return
    orig = LC.feed

    def feed(self, token, test_newline=True):
        o_pos, o_line, o_start = self.char_pos, self.line, self.line_start_pos
        r = orig(self, token, test_newline)
        ctx.monitor('LineCounter.feed-contract')
        n = token.count(self.newline_char)
        ok = self.char_pos == o_pos + len(token) and self.line == o_line + n and self.column == self.char_pos - self.line_start_pos + 1
        if ok and n:
            ok = self.line_start_pos == o_pos + token.rindex(self.newline_char) + 1
        if not ok:
            ctx.count('contract-only:LineCounter.feed')
            if len(CONTRACT_WITNESSES) < 5:
                CONTRACT_WITNESSES.append({'token': repr(token), 'test_newline': test_newline})
        return r
    LC.feed = feed
    LC._vlark = True


CONTRACT_WITNESSES = []


def run_text(ctx, g, gflags, kind, engines, w, use_bytes):
    buf = w.encode('ascii') if use_bytes else w
    for (parser, lexer), (l, lk) in engines.items():
        case = {'grammar': g, 'gflags': gflags, 'kind': kind, 'engine': [parser, lexer], 'text': w, 'bytes': use_bytes}
        out = call(ctx, 'parse', l.parse, buf, pos=True, meta=True)
        if out[0] == 'wall':
            ctx.inconc('wall guard', case)
            continue
        if out[0] != 'ok':
            if out[0] == 'exc' and not out[1].get('is_ui') and out[1].get('class') in ('AttributeError', 'TypeError', 'IndexError', 'KeyError', 'AssertionError'):
                # not a rejection: computing positions broke the parse
                ctx.judged([g, gflags, parser, lexer, w, use_bytes, 'exc'], True, ['kind:' + kind])
                ctx.violation('parse-raises-internal-error:%s/%s' % (parser, lexer), case, {'exc': out[1]})
                continue
            ctx.count('rejected(not judged)')
            continue
        family_dynamic = lexer.startswith('dynamic')
        toks = tokens_of(out[1], [])
        feats = ['kind:' + kind]
        if use_bytes:
            feats.append('bytes')
        if '\n' in w:
            feats.append({'ignored': 'newline-in-ignored', 'kept': 'newline-in-kept', 'filtered': 'newline-in-filtered', 'block': 'newline-in-kept'}[kind])
        if '\r\n' in w:
            feats.append('crlf')
        if any(t[2].endswith('\n') for t in toks):
            feats.append('token-ends-with-newline')
        nontriv = any('\n' in w[:t[4]] for t in toks if t[4] is not None)
        problems = []
        prev = 0
        for t in toks:
            p = check_token(buf, t, family_dynamic)
            if p:
                problems.append(('token-' + p, {'token': t}))
                break
            if t[3] < prev:
                problems.append(('tokens-overlap-or-unordered', {'token': t}))
                break
            prev = t[4]
        # meta oracle
        outk = call(ctx, 'parse', lk.parse, buf, pos=True, meta=True)
        cnt = [0]
        if outk[0] == 'ok' and not problems:
            ktoks = tokens_of(outk[1], [])
            for t in ktoks:
                p = check_token(buf, t, family_dynamic)
                if p:
                    problems.append(('token-' + p, {'token': t, 'keep_all_tokens': True}))
                    break
            if not problems:
                check_meta(buf, out[1], outk[1], problems, cnt, family_dynamic)
        ctx.count('feature:meta-nodes-checked', cnt[0])
        ctx.count('judged:%s/%s' % (parser, lexer))
        ctx.judged([g, gflags, parser, lexer, use_bytes, w], nontriv, feats)
        for mech, det in problems[:1]:
            ctx.violation('%s:%s/%s%s' % (mech, parser, lexer, ':bytes' if use_bytes else ''), case, det)


def run_grammar(ctx, g, gflags, kind, textgen, rng, ntexts, only=None, texts=None, bytes_modes=None):
    for use_bytes in (bytes_modes if bytes_modes is not None else ([False, True] if rng.random() < 0.4 else [False])):
        engines = {}
        for parser, lexer in LEXERS:
            if only and (parser, lexer) != tuple(only):
                continue
            kw = dict(parser=parser, lexer=lexer, propagate_positions=True, g_regex_flags=gflags, use_bytes=use_bytes)
            st, l = build(ctx, g, **kw)
            st2, lk = build(ctx, g, keep_all_tokens=True, **kw)
            if st != 'ok' or st2 != 'ok':
                ctx.count('construction-%s:%s/%s' % (st, parser, lexer))
                continue
            engines[(parser, lexer)] = (l, lk)
        tx = texts if texts is not None else [textgen(rng) for _ in range(ntexts)]
        for w in tx:
            if w.strip(' \n\r\t'):
                run_text(ctx, g, gflags, kind, engines, w, use_bytes)
    ctx.sample({'grammar': g, 'kind': kind, 'example': (texts or [textgen(rng)])[0]})


CORPUS = [
    ('start: (A|B)+\nA: /a+/\nB: /\\W+/\n', 0, 'kept', ['aa\n\naa', 'a\na \n a']),
    ('start: (A|B)+\nA: /a+/\nB: /[\\x00-\\x20]+/\n', 0, 'kept', ['aa\n\naa', 'a\na \n a']),
    ('start: (A|B)+\nA: /a+/\nB: /\\012+/\n', 0, 'kept', ['aa\n\naa']),
    ('start: A+\nA: /a+/\n%ignore /\\D/\n', 0, 'ignored', ['aa\n\naa']) if False else ('start: A+\nA: /[0-9]+/\n%ignore /\\D+/\n', 0, 'ignored', ['12\n\n34', '1\n2 \n 3']),
    ('start: A+\nA: /a+/\n%ignore /\\s+/\n', 0, 'ignored', ['aa\n\naa', 'a\r\na']),
    ('start: (WORD|BLOCK)+\nWORD: /[a-z]+/\nBLOCK: /<.*?>/\n%ignore /\\s+/\n', re.S, 'block', ['x <a\nb> y\n<\n\n> z']),
]


# ------------------------------------------------------------------ meta spans on generated EBNF grammars

def cmp_spans(ref, got, buf, problems, counter):
    """ref: reference-shaped tree with [start, end] per node (everything the node's rule matched, filtered tokens
    included); got: canonical lark tree with meta"""
    if ref is None or got is None or ref[0] != 'N' or got[0] != 'N':
        return
    if ref[1] != got[1] or len(ref[2]) != len(got[2]):
        return                                  # shape is C03's business
    sp, meta = ref[3], got[3]
    if sp is None:
        if meta is not None:
            problems.append(('meta-on-node-without-tokens', {'node': got[1], 'meta': meta}))
    elif meta is None:
        problems.append(('meta-missing-on-nonempty-node', {'node': got[1], 'expected_span': sp}))
    else:
        counter[0] += 1
        l1, c1 = R.line_col(buf, sp[0])
        l2, c2 = R.line_col(buf, sp[1])
        if meta[:2] != sp:
            problems.append(('meta-span-differs-from-what-the-rule-matched', {'node': got[1], 'meta': meta, 'expected_span': sp}))
        elif meta[2:4] != [l1, c1] or meta[4:6] != [l2, c2]:
            problems.append(('meta-line/column', {'node': got[1], 'meta': meta, 'expected': [l1, c1, l2, c2]}))
    for a, b in zip(ref[2], got[2]):
        cmp_spans(a, b, buf, problems, counter)


def run_ebnf_meta(ctx, G, inputs, only=None):
    from ..gram import RefGrammar, print_grammar, duplicate_empty_alternatives
    from .c01 import model as c01_model
    if duplicate_empty_alternatives(G):
        return
    rg = RefGrammar(G)
    if rg.is_cyclic():
        return
    text = print_grammar(G)
    for parser, lexer in LEXERS[:4]:
        if only and (parser, lexer) != tuple(only):
            continue
        st, l = build(ctx, text, parser=parser, lexer=lexer, propagate_positions=True)
        if st != 'ok':
            continue
        mode = lexer if parser == 'earley' else 'basic'
        for w in inputs:
            member, inp = c01_model(rg, mode, w)
            if not member:
                continue
            try:
                ds = R.Chart(rg, inp).derivations(cap=3)
            except (R.TooMany, RecursionError):
                continue
            if len(ds) != 1:
                continue
            ref = R.Shaper(rg, inp, False, True, spans=True).shape(ds[0])
            out = call(ctx, 'parse', l.parse, w, pos=True, meta=True)
            if out[0] == 'exc' and not out[1].get('is_ui'):
                # a member of the language: computing the positions must not make parse() fail
                ctx.judged([text, parser, lexer, 'ebnf-meta', w], True, ['kind:ebnf-meta'])
                ctx.violation('parse-raises-with-propagate_positions:%s/%s' % (parser, lexer), {'kind': 'ebnf-meta', 'ebnf': G, 'engine': [parser, lexer], 'text': w}, {'exc': out[1]})
                continue
            if out[0] != 'ok' or out[1] is None or out[1][0] != 'N' or ref is None or ref[0] != 'N':
                continue
            problems, cnt = [], [0]
            cmp_spans(ref, out[1], w, problems, cnt)
            fid = None
            if problems and problems[0][0] in ('meta-span-differs-from-what-the-rule-matched', 'meta-missing-on-nonempty-node'):
                # F-C06-1: does the token-collapse model explain every span of this tree?
                ref2 = R.Shaper(rg, inp, False, True, spans='token-collapse').shape(ds[0])
                p2 = []
                cmp_spans(ref2, out[1], w, p2, [0])
                if not p2:
                    fid = 'F-C06-1'
            ctx.count('feature:meta-nodes-checked', cnt[0])
            ctx.count('feature:ebnf-meta-trees')
            ctx.judged([text, parser, lexer, 'ebnf-meta', w], cnt[0] >= 2, ['kind:ebnf-meta'])
            for mech, det in problems[:1]:
                ctx.violation('%s:%s/%s' % (mech, parser, lexer), {'kind': 'ebnf-meta', 'ebnf': G, 'engine': [parser, lexer], 'text': w}, det, fid)


def _meta_corpus():
    from .. import gen
    L, r, a = gen.LIT, gen.rule, gen.alt
    T = [gen.term('A', ['s', 'a', '']), gen.term('B', ['s', 'b', '']), gen.term('_U', ['s', 'u', '']), gen.term('WS', ['x', '[ \\n]+', ''], ex=[' '])]
    asg = r('asg', [a([['t', 'A'], L('='), ['t', 'B']])])
    plus = lambda x: ['q', ['r', x], '+', 0, 0]
    star = lambda x: ['q', ['r', x], '*', 0, 0]

    def G(*rules):
        return {'rules': list(rules), 'terms': T, 'ignore': ['WS'], 'start': ['start'], 'alphabet': list('abu=;(), ')}
    texts = ['a=b;', 'a=b ;\n(a=b; a=b\n;)', '((a=b;)a=b\n;)', 'a=b;a=b\n ;', '(a=b;)', ';a=b', ';a=b\n;a=b', '(a=b)', '( a=b\n)(a=b)', 'a=b,;', 'a=b ,\n;a=b,;',
             'a=bu', 'a=b u\na=b\nu', 'u a=b', 'a=b;u']
    return [
        # a ?-rule that is one sub-tree followed by / preceded by / wrapped in filtered tokens, first or last in its parent
        (G(r('start', [a([plus('st')])]), r('st', [a([['r', 'asg'], L(';')]), a([L('('), plus('st'), L(')')], 'blk')], mods='?'), asg), texts),
        (G(r('start', [a([plus('st')])]), r('st', [a([L(';'), ['r', 'asg']])], mods='?'), asg), texts),
        (G(r('start', [a([star('st'), ['r', 'st']])]), r('st', [a([L('('), ['r', 'asg'], L(')')])], mods='?'), asg), texts),
        (G(r('start', [a([plus('x')])]), r('x', [a([['r', 'y'], L(';')])], mods='?'), r('y', [a([['r', 'asg'], L(',')])], mods='?'), asg), texts),
        (G(r('start', [a([plus('_i')])]), r('_i', [a([['r', 'asg'], L(';')])]), asg), texts),
        (G(r('start', [a([plus('st')])]), r('st', [a([['r', 'asg'], ['t', '_U']]), a([['t', '_U'], ['r', 'asg']], 'pre')], mods='?'), asg), texts),
        (G(r('start', [a([['r', 'st'], L(';'), ['m', [a([['r', 'st']])]]])]), r('st', [a([['r', 'asg'], ['q', ['t', '_U'], '?', 0, 0]])], mods='?'), asg), texts),
        # a ?-rule whose only remaining child is a None placeholder (F-C06-1 again: nothing to hang its filtered token on)
        (G(r('start', [a([['r', 'st'], L(';')])]), r('st', [a([['t', '_U'], ['m', [a([['t', 'A']])]]])], mods='?')), ['u;', 'ua;', ' u ;', 'u\n;']),
        # the same with the empty node next to a filtered token, on either side (an explicitly empty rule)
        (G(r('start', [a([['r', 'rr']])]), r('rr', [a([['t', '_U'], ['r', 'e']])], mods='?'), r('e', [a([])])), ['u', ' u', 'u\n']),
        (G(r('start', [a([['r', 'rr']])]), r('rr', [a([['r', 'e'], ['t', '_U']])], mods='?'), r('e', [a([])])), ['u', ' u']),
        (G(r('start', [a([['r', 'rr'], ['t', 'A']])]), r('rr', [a([['q', L(';'), '*', 0, 0], ['q', ['r', 'e'], '?', 0, 0]])], mods='?'), r('e', [a([['q', ['t', '_U'], '*', 0, 0], ['q', ['t', 'B'], '?', 0, 0]])], mods='?')),
         [';;a', 'a', ';ua', 'uba', ';;uuba']),
        # a node that matched nothing itself, inlined through a ?-rule that did: it takes that rule's span
        (G(r('start', [a([['r', 'e'], L('('), L(',')])], mods='?'), r('e', [a([['m', [a([['t', 'B']])]]], 'al0')])), ['(,', 'b(,', ' ( ,', '(\n,']),
    ]


def ebnf_meta_batch(ctx, rng, n):
    from .. import gen
    from ..gram import RefGrammar
    if ctx.batch == 0:
        for G, texts in _meta_corpus():
            run_ebnf_meta(ctx, G, texts)
            ctx.count('meta-corpus')
    for _ in range(n):
        if not ctx.time_left(0.4):            # the rest belongs to the token coordinates
            ctx.count('ebnf-meta-stopped-on-its-share-of-the-time-budget')
            return
        G = gen.ebnf(rng, p_rec=0.1, p_ignore=0.6, allow_templates=True)
        if G['ignore']:
            # newline-capable ignore, so that lines matter
            for t in G['terms']:
                if t['name'] == 'WS':
                    t['pat'] = ['x', '[ \\n]+', '']
                    t['ex'] = [' ', '\n', ' \n']
        rg = RefGrammar(G)
        ex = gen.term_examples(rg, G)
        ins = set()
        for _ in range(12):
            s_ = gen.sample_sentence(rg, rng, ex, depth=5)
            if s_ is not None:
                sep = rng.choice(['', ' ', '\n']) if G['ignore'] else ''
                w = sep.join(x for _, x in s_)
                if len(w) <= 14:
                    ins.add(w)
        run_ebnf_meta(ctx, G, sorted(ins))


def run_batch(ctx):
    rng = ctx.rng
    install_contract(ctx)
    ebnf_meta_batch(ctx, rng, PER_BATCH[ctx.tier] // 2)
    if ctx.batch == 0:
        for g, gflags, kind, texts in CORPUS:
            run_grammar(ctx, g, gflags, kind, None, rng, 0, texts=texts, bytes_modes=[False, True])
            ctx.count('corpus')
    for i in range(PER_BATCH[ctx.tier]):
        if not ctx.time_left():
            ctx.count('stopped-on-time-budget')
            break
        g, gflags, kind, textgen = gen_grammar(rng)
        run_grammar(ctx, g, gflags, kind, textgen, rng, 14)
    if CONTRACT_WITNESSES:
        ctx.sample({'contract-only LineCounter.feed witnesses': CONTRACT_WITNESSES}, force=True)


def replay(ctx, case):
    install_contract(ctx)
    if case.get('kind') == 'ebnf-meta':
        run_ebnf_meta(ctx, case['ebnf'], [case['text']], only=case['engine'])
        return
    run_grammar(ctx, case['grammar'], case['gflags'], case['kind'], None, ctx.rng, 0, only=case['engine'], texts=[case['text']], bytes_modes=[case['bytes']])

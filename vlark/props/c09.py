"""C09  x~n, x~n..m, x?, x*, x+ match exactly the stated numbers of occurrences; occurrences are
consecutive children in order; no helper nodes visible."""
from ..core import STEPS, digest, canon_tree
from ..common import build, call

NBATCH = {'quick': 16, 'thorough': 64}
BUDGET_S = {'quick': 90, 'thorough': 180}
FLOORS = {
    'quick': {'distinct_nontrivial': 600, 'feature:factored(m>=50)': 300, 'feature:n==m': 100, 'feature:n==0': 100,
              'feature:x=lit': 50, 'feature:x=term': 200, 'feature:x=rule': 50, 'feature:x=group': 50, 'feature:x=template-arg': 50,
              'feature:x=in-terminal': 50, 'feature:x=alt-group': 50, 'alt-group-below-factoring-threshold': 16, 'feature:x=in-terminal-seq': 50, 'feature:op?*+': 60, 'feature:parser=lalr': 300, 'feature:parser=earley': 200,
              'monitor:small_factors-contract': 50, 'feature:accepted': 400, 'feature:rejected': 400},
    'thorough-unused': {'distinct_nontrivial': 40000, 'feature:factored(m>=50)': 20000, 'monitor:small_factors-contract': 5000},
}
RULE = ("cases = (item kind x, bounds n..m or operator, parser, repetition count k); grammar start: \"<\" x~n..m \">\" (and "
        "variants); oracle: accepted iff n<=k<=m, the tree holds exactly the k occurrences as consecutive children in input "
        "order and no node named __*; inside terminals: one token spanning the k occurrences; quick: (n,m) pairs hitting every "
        "residue of the factoring code around 0,5,49/50/51,100,125,130 with k in {n-2..n+2, m-2..m+2, mid}; thorough: every "
        "0<=n<=m<=140 for LALR+terminal plus a sample up to 400; non-trivial = factored path (m>=50) or n==m or n==0; distinct by "
        "(kind, n, m, parser, k)")
ASSUMPTIONS = ["bounds are sampled up to 400 (quick) / enumerated to 140 (thorough, LALR + terminal)",
               "secondary contract: every small_factors() result folds back to its argument and respects a+b<=max_factor"]

KINDS = ['term', 'lit', 'rule', 'group', 'template-arg', 'in-terminal', 'alt-group', 'in-terminal-seq']


def grammar(kind, rep):
    """-> (text, unit string, children per occurrence, options)"""
    if kind == 'term':
        return 'start: "<" X%s ">"\nX: /[abc]/\n' % rep, 1
    if kind == 'lit':
        return '!start: "<" "a"%s ">"\n' % rep, 1
    if kind == 'rule':
        return 'start: "<" x%s ">"\nx: X\nX: /[abc]/\n' % rep, 1
    if kind == 'group':
        return 'start: "<" (X Y)%s ">"\nX: /[abc]/\nY: "y"\n' % rep, 2
    if kind == 'template-arg':
        return 'start: "<" rep{X} ">"\n_rep{t}: t%s\nX: /[abc]/\n' % rep, 1
    if kind == 'in-terminal':
        return 'start: "<" T ">"\nT: "b" /[ac]/%s\n' % rep, 1
    if kind == 'alt-group':         # a group with alternatives: every occurrence chooses on its own
        return 'start: "<" (X | Y)%s ">"\nX: /[abc]/\nY: "y"\n' % rep, 1
    if kind == 'in-terminal-seq':   # inside a terminal, an occurrence that is a sequence of two character classes
        return 'start: "<" T ">"\nT: "b" ("a".."c" "0".."1")%s\n' % rep, 1
    raise ValueError(kind)


def make_input(kind, k, rng):
    if kind == 'lit':
        return '<' + 'a' * k + '>', ['a'] * k
    if kind == 'group':
        xs = [rng.choice('abc') for _ in range(k)]
        return '<' + ''.join(x + 'y' for x in xs) + '>', [v for x in xs for v in (x, 'y')]
    if kind == 'in-terminal':
        xs = [rng.choice('ac') for _ in range(k)]
        return '<b' + ''.join(xs) + '>', ['b' + ''.join(xs)]
    if kind == 'in-terminal-seq':
        xs = [rng.choice('abc') + rng.choice('01') for _ in range(k)]
        return '<b' + ''.join(xs) + '>', ['b' + ''.join(xs)]
    if kind == 'alt-group':
        xs = [rng.choice('abcyy') for _ in range(k)]
        return '<' + ''.join(xs) + '>', xs
    xs = [rng.choice('abc') for _ in range(k)]
    return '<' + ''.join(xs) + '>', xs


def leaves(t):
    if t is None:
        return []
    if t[0] == 'T':
        return [t[2]]
    out = []
    for c in t[2]:
        out.extend(leaves(c))
    return out


def has_helper(t):
    if t is None or t[0] != 'N':
        return False
    return t[1].startswith('__') or any(has_helper(c) for c in t[2])


def check_pair(ctx, kind, n, m, op, parser, lexer, ks, rep=None, build_budget=60_000_000):
    rep = rep or (op if op in ('?', '*', '+') else ('~%d' % n if n == m and ctx.rng.random() < 0.7 else '~%d..%d' % (n, m)))
    text, per = grammar(kind, rep)
    lo, hi = {'?': (0, 1), '*': (0, 10 ** 9), '+': (1, 10 ** 9)}.get(op, (n, m))
    opts = {'parser': parser, 'lexer': lexer}
    if kind == 'template-arg':
        text = text.replace('rep{X}', '_rep{X}')
    st, l = build(ctx, text, budget=build_budget, **opts)
    case0 = {'kind': kind, 'n': n, 'm': m, 'op': op, 'rep': rep, 'parser': parser, 'lexer': lexer, 'grammar': text, 'build_budget': build_budget}
    if st != 'ok':
        if st == 'wall':
            ctx.inconc('wall guard in construction', case0)
        else:
            ctx.violation('construction-fails', dict(case0, k=None), {'status': st, 'detail': l})
        return
    for k in ks:
        if k < 0:
            continue
        w, occ = make_input(kind, k, ctx.rng)
        case = dict(case0, k=k, input=w)
        out = call(ctx, 'parse', l.parse, w, budget=80_000_000)
        if out[0] == 'wall':
            ctx.inconc('wall guard', case)
            continue
        exp = lo <= k <= hi
        feats = ['x=' + kind, 'parser=' + parser, 'accepted' if exp else 'rejected']
        if op in ('?', '*', '+'):
            feats.append('op?*+')
        else:
            if m >= 50:
                feats.append('factored(m>=50)')
            if n == m:
                feats.append('n==m')
            if n == 0:
                feats.append('n==0')
        nontriv = op == '~' and (m >= 50 or n == m or n == 0)
        ctx.judged([kind, n, m, op, parser, lexer, k], nontriv, feats)
        if out[0] == 'budget':
            ctx.violation('no-termination', case, {})
            continue
        got = out[0] == 'ok'
        if got != exp:
            ctx.violation('accepts-wrong-count' if got else 'rejects-right-count', case, {'bounds': [lo, hi if hi < 10 ** 9 else None], 'k': k, 'outcome': out if not got else 'accepted'})
            continue
        if not got:
            if not out[1].get('is_ui'):
                ctx.violation('rejection-not-UnexpectedInput', case, {'exc': out[1]})
            continue
        t = out[1]
        kids = t[2]
        body = kids[1:-1] if kind == 'lit' else kids      # !start keeps "<" and ">"
        if has_helper(t):
            ctx.violation('helper-node-visible', case, {'tree': t})
        elif len(body) != len(occ) or [leaves(c) for c in body] != [[v] for v in occ]:
            ctx.violation('children-not-the-occurrences-in-order', case, {'expected': occ, 'tree': t})
        elif kind == 'rule' and any(c[0] != 'N' or c[1] != 'x' for c in body):
            ctx.violation('children-not-the-occurrences-in-order', case, {'expected': occ, 'tree': t})


def ks_for(n, m, rng):
    ks = set(range(n - 2, n + 3)) | set(range(m - 2, m + 3)) | {(n + m) // 2}
    return sorted(k for k in ks if k >= 0)


def quick_pairs(rng):
    base = [0, 1, 2, 3, 4, 5, 6, 7, 24, 25, 26, 48, 49, 50, 51, 52, 53, 54, 55, 99, 100, 101, 124, 125, 126, 129, 130, 131]
    pairs = set()
    for n in base:
        for d in (0, 1, 2, 3, 4, 5, 6, 24, 49, 50, 51, 75):
            if n + d >= 1:
                pairs.add((n, n + d))
    for _ in range(40):
        n = rng.randint(0, 200)
        pairs.add((n, n + rng.choice([0, rng.randint(0, 10), rng.randint(0, 200)])))
    pairs.discard((0, 0))
    return sorted(pairs)


def install_contract(ctx):
    import lark.load_grammar as lg
    import lark.utils as lu
    orig = lu.small_factors

    def checked(n, max_factor):
        r = orig(n, max_factor)
        x = 1
        for a, b in r:
            x = x * a + b
        ctx.monitor('small_factors-contract')
        if x != n or any(a + b > max_factor for a, b in r[1:]) or any(a < 0 or b < 0 for a, b in r):
            ctx.violation('small_factors-contract', {'kind': 'contract', 'n': n, 'max_factor': max_factor}, {'result': r, 'folds_to': x})
        return r
    lg.small_factors = checked


def run_batch(ctx):
    rng = ctx.rng
    install_contract(ctx)
    if ctx.tier == 'quick':
        pairs = quick_pairs(__import__('random').Random(ctx.seed))
        mine = pairs[ctx.batch::ctx.nbatch]
        for i, (n, m) in enumerate(mine):
            if not ctx.time_left():
                ctx.count('stopped-on-time-budget')
                break
            kind = KINDS[(i + ctx.batch) % len(KINDS)]
            parser, lexer = [('lalr', 'contextual'), ('earley', 'basic'), ('lalr', 'basic'), ('earley', 'dynamic')][(i // 2) % 4]
            if m > 130 and parser == 'earley' and lexer == 'dynamic':
                lexer = 'basic'
            if kind == 'in-terminal' and n == 0 and m == 0:
                continue
            check_pair(ctx, kind, n, m, '~', parser, lexer, ks_for(n, m, rng))
            if i % 2 == 0:
                check_pair(ctx, 'term', n, m, '~', 'lalr', 'contextual', ks_for(n, m, rng))
        for op in '?*+':
            kind = KINDS[(ctx.batch + '?*+'.index(op)) % len(KINDS)]
            for parser, lexer in (('lalr', 'contextual'), ('earley', 'dynamic')):
                check_pair(ctx, kind, 0, 0, op, parser, lexer, [0, 1, 2, 3, 7, 20])
    else:
        # every 0<=n<=m<=140 for LALR+terminal, split over the batches
        allp = [(n, m) for n in range(0, 141) for m in range(max(n, 1), 141)]
        for n, m in allp[ctx.batch::ctx.nbatch]:
            if not ctx.time_left():
                ctx.count('stopped-on-time-budget')
                break
            check_pair(ctx, 'term', n, m, '~', 'lalr', 'contextual', ks_for(n, m, rng))
        for op in '?*+':
            for kind in KINDS:
                check_pair(ctx, kind, 0, 0, op, 'lalr', 'contextual', [0, 1, 2, 3, 7, 50])
        # every small pair for every kind of x and every engine
        ENG = [('lalr', 'contextual'), ('earley', 'basic'), ('lalr', 'basic'), ('earley', 'dynamic')]
        small = [(kind, n, m, e) for kind in KINDS for n in range(0, 9) for m in range(max(n, 1), 9) for e in ENG]
        for kind, n, m, (parser, lexer) in small[ctx.batch::ctx.nbatch]:
            if not ctx.time_left(0.6):
                ctx.count('small-pairs-stopped-on-their-share-of-the-time-budget')
                break
            check_pair(ctx, kind, n, m, '~', parser, lexer, ks_for(n, m, rng))
            ctx.count('exhaustive-small-pairs')
        # the rest of the budget: random bounds up to 600 (several levels of factored helper rules), every kind and engine
        while ctx.time_left():
            n = rng.choice([rng.randint(0, 60), rng.randint(0, 300), rng.randint(0, 600)])
            m = n + rng.choice([0, rng.randint(0, 8), rng.randint(0, 100), rng.randint(0, 400)])
            if m == 0:
                continue
            kind = rng.choice(KINDS)
            parser, lexer = rng.choice(ENG)
            if m > 130 and (parser, lexer) == ('earley', 'dynamic'):
                lexer = 'basic'
            check_pair(ctx, kind, n, m, '~', parser, lexer, ks_for(n, m, rng))
            ctx.count('random-large-pairs')
    # both tiers: a group with alternatives below the factoring threshold - k**n expansions if the copies are multiplied out
    n, m = [(20, 20), (16, 24), (40, 40), (30, 49), (12, 13), (49, 49), (0, 30), (24, 25)][ctx.batch % 8]
    check_pair(ctx, 'alt-group', n, m, '~', ['lalr', 'earley'][ctx.batch % 2], ['contextual', 'basic'][ctx.batch % 2], ks_for(n, m, rng),
               build_budget=4_000_000)      # a handful of rules: a construction that needs more steps is multiplying something out
    ctx.count('alt-group-below-factoring-threshold')
    ctx.sample({'grammar': grammar('term', '~3..51')[0], 'k': [1, 2, 3, 4, 5, 27, 49, 50, 51, 52, 53]})


def replay(ctx, case):
    if case.get('kind') == 'contract':
        install_contract(ctx)
        import lark.load_grammar as lg
        lg.small_factors(case['n'], case['max_factor'])
        ctx.judged(['contract', case['n']], True)
        return
    install_contract(ctx)
    # the same grammar is compiled several times in this process, alone and after neighbouring bounds: a verdict that
    # depends on what was compiled before (memoised factorisations, shared helper caches) must reproduce here
    ks = [case['k']] if case.get('k') is not None else []
    for _ in range(3):
        check_pair(ctx, case['kind'], case['n'], case['m'], case['op'], case['parser'], case['lexer'], ks, case.get('rep'), build_budget=case.get('build_budget', 60_000_000))
    if case['op'] == '~':
        for dn, dm in ((0, 1), (1, 1), (0, -1), (2, 2)):
            if 0 <= case['n'] + dn <= case['m'] + dm:
                check_pair(ctx, case['kind'], case['n'] + dn, case['m'] + dm, '~', case['parser'], case['lexer'], [], None, build_budget=case.get('build_budget', 60_000_000))
        for _ in range(2):
            check_pair(ctx, case['kind'], case['n'], case['m'], case['op'], case['parser'], case['lexer'], ks, case.get('rep'), build_budget=case.get('build_budget', 60_000_000))

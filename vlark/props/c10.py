"""C10  a Lark instance is a pure function of its input: reusable (any history of successful,
failed and abandoned calls) and thread-safe (any interleaving of concurrent calls)."""
import random, itertools
from ..core import STEPS, digest, canon_tree, canon_exc, canon_token
from ..common import build
from ..fingerprint import Fingerprinter, lazy_fill_diff
from .. import sched

USE_STEPS = False          # the scheduler owns the monitoring hooks of this check
NBATCH = {'quick': 16, 'thorough': 64}
BUDGET_S = {'quick': 80, 'thorough': 180}
N_HIST = {'quick': 30, 'thorough': 500}       # histories per batch and configuration family
N_SCHED = {'quick': 45, 'thorough': 900}      # schedules per batch and threaded configuration
FLOORS = {
    'quick': {'distinct_nontrivial': 3000, 'history-calls-judged': 8000, 'histories': 1500, 'fingerprints-compared': 8000,
              'schedules': 800, 'schedules:broad': 60, 'distinct-interleavings': 700, 'schedules-with-overlap-in-first-use-window': 800,
              'thread-results-judged': 4000, 'feature:after-failed-call': 1500, 'feature:after-abandoned-generator': 1000,
              'feature:indenter-after-DedentError': 50, 'feature:indenter-after-abandoned-block': 50,
              'feature:other-instance-built-between': 300, 'feature:instance-from-the-same-Grammar-object-built-between': 150, 'feature:op:scan': 500, 'feature:op:interactive': 500, 'feature:op:lex': 800},
    'thorough-unused': {'distinct_nontrivial': 50000, 'schedules': 40000, 'distinct-interleavings': 35000, 'histories': 20000},
}
RULE = ("(a) histories: random sequences of parse / lex / scan / parse_interactive calls (succeeding, failing, generators abandoned "
        "after j items), constructions of other instances (valid and invalid grammars) and Indenter streams (ok, DedentError, "
        "abandoned mid-block) on ONE instance; every call's canonical result (tree with all token coordinates and meta, token "
        "lists, scan spans, exception fields) must equal the result of the same call on a fresh instance; after a warm-up the "
        "digest of all state reachable from the instance must stay constant.  (b) threads: 2-4 threads call a FRESH instance "
        "simultaneously under a seeded line-level scheduler (sys.monitoring LINE events in the lexer/front-end functions that "
        "touch lazily built shared state; one thread runs at a time, switches at statement boundaries); every thread's result "
        "must equal the sequential result.  non-trivial = judged call preceded by a failed or abandoned call, or a schedule in "
        "which two threads were inside a first-use window at the same time; distinct by (config, history) / (config, ops, schedule digest)")
ASSUMPTIONS = ["thread interleavings are sampled by a seeded scheduler at statement granularity in the instrumented functions (lark.lexer, lark.parser_frontends, Lark.parse/lex/scan, lalr parser entry), not enumerated",
               "lexer_callbacks used are pure functions (non-idempotent, so that double application is visible)",
               "the post-lexer object's own fields (Indenter.indent_level/paren_level) are excluded from the state digest: they legitimately change and are reset at the start of every stream; behaviour after failed/abandoned streams is judged through the history oracle"]
FLAKY_IS_VIOLATION = False

# ------------------------------------------------------------------ configurations

G_EXPR = r'''
?start: sum
?sum: product | sum "+" product -> add | sum "-" product -> sub
?product: atom | product "*" atom -> mul
?atom: NUMBER -> number | NAME -> var | "(" sum ")" | "-" atom -> neg | KW atom -> kw
KW: "not"
NAME: /[a-z]+/
NUMBER: /\d+/
WS: /[ \n]+/
%ignore WS
'''
T_EXPR = ['1+2*x', 'not a + (b*3)', '(1\n+\n2)*\n3', 'a', '-(-x)', 'not not y', '1+', '(1+2', '1 2', '1 + $', '', '*', 'a+b)', 'x*(y', 'nota b', 'a\n+\n\n+']
G_LIST = r'''
start: item*
item: "[" [item ("," item)*] "]" | WORD | pair
pair: WORD ":" item
WORD: /\w+/
%ignore /\s+/
'''
T_LIST = ['[a, b, [c]] d', 'a:b c:[d,e]', '[]', '[a,', 'a : : b', '[a] ]', '', 'x y z', '[[[[x]]]]', 'a,b', '[a b]', 'k:[v, w:[x]]\n[y]', '?']
G_TREE = r'''
?start: _NL* tree
tree: NAME _NL [_INDENT tree+ _DEDENT]
%import common.CNAME -> NAME
%import common.WS_INLINE
%declare _INDENT _DEDENT
%ignore WS_INLINE
_NL: /(\r?\n[\t ]*)+/
'''
T_TREE = ['a\n  b\n  c\n    d\n  e\n', 'a\n', 'a\n  b\n    c\n', 'a\n    b\n  c\n', 'a\n  b\n c\n', 'a\n  b\n  !', 'a\n  b\n    c\n      d\n  e\n', '\n\na\n\tb\n', 'a\n  b\n    c\n   d\n', 'a b\n']


def make_indenter():
    from lark.indenter import Indenter

    class TreeIndenter(Indenter):
        NL_type = '_NL'
        OPEN_PAREN_types = []
        CLOSE_PAREN_types = []
        INDENT_type = '_INDENT'
        DEDENT_type = '_DEDENT'
        tab_len = 8
    return TreeIndenter()


def cb(t):
    """pure, non-idempotent lexer callback"""
    from lark import Token
    return Token.new_borrow_pos(t.type, t.value + "'", t)


CONFIGS = {
    'lalr-basic': dict(g=G_EXPR, texts=T_EXPR, kw=dict(parser='lalr', lexer='basic', propagate_positions=True), scan=True, interactive=True),
    'lalr-contextual': dict(g=G_EXPR, texts=T_EXPR, kw=dict(parser='lalr', lexer='contextual', propagate_positions=True), scan=True, interactive=True),
    'lalr-contextual-list': dict(g=G_LIST, texts=T_LIST, kw=dict(parser='lalr', propagate_positions=True), scan=True, interactive=True),
    'lalr-basic-callbacks': dict(g=G_EXPR, texts=T_EXPR, kw=dict(parser='lalr', lexer='basic'), callbacks=['NAME', 'KW', 'NUMBER'], scan=True, interactive=True),
    'lalr-contextual-callbacks': dict(g=G_EXPR, texts=T_EXPR, kw=dict(parser='lalr', lexer='contextual'), callbacks=['NAME', 'KW'], scan=True, interactive=True),
    'earley-basic': dict(g=G_EXPR, texts=T_EXPR, kw=dict(parser='earley', lexer='basic', propagate_positions=True)),
    'earley-dynamic': dict(g=G_LIST, texts=T_LIST, kw=dict(parser='earley', lexer='dynamic', propagate_positions=True), nolex=True),
    'earley-dynamic-explicit': dict(g=G_EXPR, texts=T_EXPR, kw=dict(parser='earley', lexer='dynamic', ambiguity='explicit'), nolex=True),
    'lalr-indenter': dict(g=G_TREE, texts=T_TREE, kw=dict(parser='lalr'), indenter=True, interactive=True),
    'earley-indenter': dict(g=G_TREE, texts=T_TREE, kw=dict(parser='earley', lexer='basic'), indenter=True),
    # ambiguous, with rule priorities: what "resolve" returns must not depend on other instances compiled from the same Grammar
    'earley-priorities': dict(g='start: a | b | c\na.2: X+\nb.1: X+ Y?\nc.3: X X\nX: "x"\nY: "y"\n%ignore " "\n', texts=['x', 'x x', 'x x x', 'x y', 'y', '', 'x x y'],
                              kw=dict(parser='earley', lexer='basic'), sibling=True),
    'earley-dynamic-priorities': dict(g='start: a | b | c\na.2: X+\nb.1: X+ Y?\nc.3: X X\nX.2: "x"\nY: "y"\n%ignore " "\n', texts=['x', 'x x', 'x x x', 'x y', 'y', '', 'xxy'],
                                      kw=dict(parser='earley', lexer='dynamic', priority='invert'), nolex=True, sibling=True),
    'cyk': dict(g='start: a+\na: "x" b | "y"\nb: "z" | a a\n%ignore " "\n', texts=['x z', 'y y', 'x y y', 'x', 'x x z z', 'q', ''], kw=dict(parser='cyk')),
}
THREAD_CONFIGS = ['lalr-basic', 'lalr-contextual', 'lalr-contextual-list', 'lalr-basic-callbacks', 'lalr-contextual-callbacks', 'earley-basic', 'earley-dynamic']
OTHER_GRAMMARS = ['start: "a"+\n', 'start: x | y\nx: "a"\ny: "a"\n', 'start: UNDEFINED_ b\n', 'start: /(/\n', '?start: NAME\nNAME: /[a-z]+/\n%ignore " "\n']


def make(name):
    from lark import Lark
    c = CONFIGS[name]
    kw = dict(c['kw'])
    if c.get('callbacks'):
        kw['lexer_callbacks'] = {t: cb for t in c['callbacks']}
    if c.get('indenter'):
        kw['postlex'] = make_indenter()
    return Lark(c['g'], **kw)


# ------------------------------------------------------------------ operations

def canon_any(fn):
    try:
        return ['ok', fn()]
    except Exception as e:
        return ['exc', canon_exc(e)]


KEEP = []        # abandoned generators / sessions stay referenced until the history ends ("abandoned half-way" does not
                 # mean garbage-collected: a clean-up that only runs when the generator is finalised would hide behind that)


def do_op(l, op):
    """op = [kind, text, j]; returns canonical plain data"""
    kind, text, j = op
    if kind == 'parse':
        return canon_any(lambda: canon_tree(l.parse(text), True, True))
    if kind == 'lex':
        def f():
            out = []
            g = l.lex(text)
            for i, t in enumerate(g):
                if j is not None and i >= j:
                    KEEP.append(g)
                    break                     # generator abandoned (and still referenced)
                out.append(canon_token(t))
            return out
        return canon_any(f)
    if kind == 'scan':
        def f():
            out = []
            g = l.scan(text)
            for i, (span, tree) in enumerate(g):
                if j is not None and i >= j:
                    KEEP.append(g)
                    break
                out.append([list(span), canon_tree(tree, True, True)])
            return out
        return canon_any(f)
    if kind == 'interactive':
        def f():
            ip = l.parse_interactive(text)
            out = []
            g = ip.lexer_thread.lex(ip.parser_state)
            for i, t in enumerate(g):
                if j is not None and i >= j:
                    KEEP.append((ip, g))
                    break                     # session dropped half-way (and still referenced)
                ip.feed_token(t)
                out.append(sorted(ip.accepts()))
            else:
                out.append(canon_tree(ip.feed_eof(), True, True))
            return out
        return canon_any(f)
    if kind == 'build-other':
        from lark import Lark
        return canon_any(lambda: (Lark(text, parser=j or 'lalr') and 'built'))
    if kind == 'build-sibling':
        # another instance from this instance's own Grammar object (Lark accepts one), with another priority mode
        from lark import Lark
        return canon_any(lambda: (Lark(l.grammar, parser='earley', lexer=l.options.lexer, priority=j) and 'built'))
    raise ValueError(kind)


def gen_op(rng, c):
    kinds = ['parse'] * 4 + ['lex'] * 2 + ['build-other']
    if c.get('nolex'):
        kinds = ['parse'] * 4 + ['build-other']
    if c.get('scan'):
        kinds += ['scan'] * 2
    if c.get('interactive'):
        kinds += ['interactive'] * 2
    if c.get('sibling'):
        kinds += ['build-sibling'] * 3
    k = rng.choice(kinds)
    if k == 'build-sibling':
        return [k, '', rng.choice(['invert', None, 'normal'])]
    if k == 'build-other':
        return [k, rng.choice(OTHER_GRAMMARS), rng.choice(['lalr', 'earley'])]
    text = rng.choice(c['texts'])
    if k == 'scan':
        text = rng.choice([text, ' '.join(rng.sample(c['texts'], 3)), '$ ' + text + ' $ ' + rng.choice(c['texts'])])
    j = rng.choice([None, None, 0, 1, 2, 3]) if k != 'parse' else None
    return [k, text, j]


def skip_attr(o, name):
    return type(o).__name__.endswith('Indenter') and name in ('indent_level', 'paren_level')


def classify_after(prev_ops, prev_results):
    feats = set()
    for op, r in zip(prev_ops, prev_results):
        if op[0] == 'build-other':
            feats.add('other-instance-built-between')
        elif op[0] == 'build-sibling':
            feats.add('instance-from-the-same-Grammar-object-built-between')
        elif r[0] == 'exc':
            feats.add('after-failed-call')
            if r[1]['class'] == 'DedentError':
                feats.add('indenter-after-DedentError')
        elif op[2] is not None:
            feats.add('after-abandoned-generator')
    return feats


def run_history(ctx, name, ops, fresh_cache, fp):
    c = CONFIGS[name]
    del KEEP[:]
    l = make(name)
    # warm-up: one of each kind, so that lazily built caches exist
    for op in (['parse', c['texts'][0], None], ['parse', '\x00', None]) + ((['lex', c['texts'][0], None],) if not c.get('nolex') else ()) + \
              ((['scan', c['texts'][0], None],) if c.get('scan') else ()) + ((['interactive', c['texts'][0], None],) if c.get('interactive') else ()):
        do_op(l, op)
    base_fp = fp.flat(l)
    prev_ops, prev_res = [], []
    for k, op in enumerate(ops):
        got = do_op(l, op)
        key = json_key(name, op)
        exp = fresh_cache.get(key)
        if exp is None:
            exp = fresh_cache[key] = do_op(make(name), op)
            ctx.count('fresh-instance-results')
        feats = classify_after(prev_ops, prev_res)
        if c.get('indenter') and any(o[0] in ('lex', 'interactive') and o[2] is not None and r[0] == 'ok' for o, r in zip(prev_ops, prev_res)):
            feats.add('indenter-after-abandoned-block')
        ctx.judged([name, ops[:k + 1]], bool(feats & {'after-failed-call', 'after-abandoned-generator'}), sorted(feats) + ['op:' + op[0], 'config:' + name])
        ctx.count('history-calls-judged')
        case = {'kind': 'history', 'config': name, 'ops': ops[:k + 1]}
        if got != exp:
            ctx.violation('result-depends-on-history:%s:%s' % (name, op[0]), case, {'on_this_instance': got, 'on_fresh_instance': exp})
            return
        viol, fills = lazy_fill_diff(base_fp, fp.flat(l))
        ctx.count('fingerprints-compared')
        if fills:
            ctx.count('lazy-fills-observed', len(fills))
            for f in fills:
                LAZY_SEEN.add(f.rsplit('.', 1)[-1].split('{')[0].split('[')[0])
        if viol:
            ctx.violation('instance-state-changed-after-warm-up:%s:%s' % (name, op[0]), case,
                          {'changed_after': op, 'changes(path, before, after)': [list(v) for v in viol[:6]]})
            return
        prev_ops.append(op)
        prev_res.append(got)
    ctx.count('histories')


def json_key(name, op):
    return digest([name, op])


# ------------------------------------------------------------------ threads

_SCHED = None
LAZY_SEEN = set()


def get_sched(broad=False):
    """targeted: statement boundaries of the functions that touch lazily built shared state (and the call paths into them);
    broad: every function of the runtime modules of lark (finds shared state the targeted list does not know about).
    One mode per worker process (the scheduler owns one sys.monitoring tool id)."""
    global _SCHED
    if _SCHED is None:
        import lark.lexer as lx, lark.parser_frontends as pf, lark.lark as lk, lark.utils as ut
        from lark.parsers import lalr_parser, lalr_parser_state, lalr_interactive_parser
        watch = []
        for o in (lx.BasicLexer.scanner, lx.BasicLexer.search_scanner, lx.BasicLexer._build_scanner, lx.PatternRE, lx.PatternStr, lx.Pattern):
            watch += sched.code_objects_of(o)
        codes = list(watch)
        if broad:
            import lark.parse_tree_builder as ptb, lark.tree as tr, lark.common as cm, lark.grammar as gr, lark.visitors as vs, lark.indenter as ind
            from lark.parsers import earley, xearley, earley_forest, earley_common
            for m in (lx, pf, lk, ut, lalr_parser, lalr_parser_state, lalr_interactive_parser, earley, xearley, earley_forest, earley_common,
                      ptb, tr, cm, gr, vs, ind):
                codes += sched.code_objects_of(m)
        else:
            for o in (lx.BasicLexer, lx.ContextualLexer, lx.LexerThread, lx.LexerState, lx.Scanner, lx._create_unless, lx.UnlessCallback, lx.CallChain,
                      pf.ParsingFrontend, pf.PostLexConnector, lk.Lark.parse, lk.Lark.lex, lk.Lark.scan, lk.Lark.parse_interactive,
                      lalr_parser._Parser, lalr_parser.LALR_Parser):
                codes += sched.code_objects_of(o)
        _SCHED = sched.Scheduler(codes, watch)
        _SCHED.broad = broad
        _SCHED.install()
    return _SCHED


def thread_op(l, op):
    return lambda: do_op(l, op)


def run_schedule(ctx, name, tops, seed, p, seq_cache, seen_traces, broad=False):
    c = CONFIGS[name]
    S = get_sched(broad)
    l = make(name)
    fns = [(lambda ops=ops: [do_op(l, op) for op in ops]) for ops in tops]
    case = {'kind': 'threads', 'config': name, 'thread_ops': tops, 'schedule_seed': seed, 'p_switch': p, 'broad': broad}
    try:
        r = S.run(fns, seed, p)
    except sched.Deadlock:
        ctx.inconc('scheduler watchdog fired (harness deadlock)', case)
        return
    ctx.count('schedules')
    ctx.count('schedules:broad' if broad else 'schedules:targeted')
    if r['trace_digest'] not in seen_traces:
        seen_traces.add(r['trace_digest'])
        ctx.count('distinct-interleavings')
    if r['overlaps']:
        ctx.count('schedules-with-overlap-in-first-use-window')
    ctx.count('scheduling-points', r['points'])
    ctx.count('thread-switches', r['switches'])
    for ti, (ops, res) in enumerate(zip(tops, r['results'])):
        if res[0] == 'exc':
            ctx.judged([name, tops, r['trace_digest'], ti], r['overlaps'] > 0, ['config:' + name])
            ctx.violation('thread-dies-with-exception:%s' % name, case, {'thread': ti, 'exception': repr(res[1])[:300], 'trace_digest': r['trace_digest']})
            return
        for op, got in zip(ops, res[1]):
            key = json_key(name, op)
            exp = seq_cache.get(key)
            if exp is None:
                exp = seq_cache[key] = do_op(make(name), op)
            ctx.judged([name, tops, r['trace_digest'], ti, op], r['overlaps'] > 0, ['config:' + name, 'threads:%d' % len(tops)])
            ctx.count('thread-results-judged')
            if got != exp:
                ctx.violation('thread-result-differs-from-sequential:%s:%s' % (name, op[0]), case,
                              {'thread': ti, 'op': op, 'concurrent': got, 'sequential': exp, 'trace_digest': r['trace_digest']})
                return


def gen_thread_ops(rng, c):
    nt = rng.choice([2, 3, 3, 4])
    tops = []
    for _ in range(nt):
        ops = []
        for _ in range(rng.randint(1, 2)):
            kinds = ['parse'] * 3 + ([] if c.get('nolex') else ['lex']) + (['scan'] if c.get('scan') else [])
            k = rng.choice(kinds)
            ops.append([k, rng.choice(c['texts']), None])
        tops.append(ops)
    return tops


def run_batch(ctx):
    rng = ctx.rng
    fp = Fingerprinter(skip_attr)
    fresh = {}
    names = sorted(CONFIGS)
    for i in range(N_HIST[ctx.tier]):
        if not ctx.time_left(0.45):           # the rest belongs to the thread schedules
            ctx.count('histories-stopped-on-their-share-of-the-time-budget')
            break
        for name in names:
            c = CONFIGS[name]
            ops = [gen_op(rng, c) for _ in range(rng.randint(3, 8))]
            run_history(ctx, name, ops, fresh, fp)
    ctx.sample({'kind': 'history', 'config': name, 'ops': ops, 'lazily_filled_attributes_seen': sorted(LAZY_SEEN)})
    seq = {}
    seen = set()
    base = ctx.seed * 1000003 + ctx.batch * 10007
    broad = ctx.batch % 4 == 3          # every fourth worker instruments all runtime modules of lark
    name = tops = p = None
    for i in range(N_SCHED[ctx.tier] // (3 if broad else 1)):
        if not ctx.time_left():
            ctx.count('stopped-on-time-budget')
            break
        for name in THREAD_CONFIGS:
            tops = gen_thread_ops(rng, CONFIGS[name])
            p = rng.choice([0.003, 0.01, 0.03]) if broad else rng.choice([0.05, 0.15, 0.3, 0.5])
            run_schedule(ctx, name, tops, base + i * 31 + THREAD_CONFIGS.index(name), p, seq, seen, broad)
    ctx.sample({'kind': 'threads', 'config': name, 'thread_ops': tops, 'p_switch': p})


def replay(ctx, case):
    if case['kind'] == 'history':
        run_history(ctx, case['config'], case['ops'], {}, Fingerprinter(skip_attr))
    else:
        run_schedule(ctx, case['config'], case['thread_ops'], case['schedule_seed'], case['p_switch'], {}, set(), case.get('broad', False))

"""C03  returned tree == documented shaping of a derivation; engines agree on single-derivation inputs"""
from ..core import STEPS, digest, canon_tree
from ..common import build, call, basic_tokens, named_types
from ..gram import RefGrammar, print_grammar, duplicate_empty_alternatives, colliding_optionals
from .. import ref as R, gen
from .c01 import model as c01_model

NBATCH = {'quick': 16, 'thorough': 64}
BUDGET_S = {'quick': 90, 'thorough': 180}
PER_BATCH = {'quick': 90, 'thorough': 1500}
SHAPING = ['token-filtered', 'token-kept-by-bang-or-keep_all', 'none-placeholder', 'rule-inlined', 'expand1', 'alias', 'template-instance']
FLOORS = {
    'quick': dict({'distinct_nontrivial': 3000, 'corpus': 15, 'judged:earley/basic': 1000, 'judged:earley/dynamic': 1000,
                   'judged:earley/dynamic_complete': 800, 'judged:lalr/basic': 300, 'judged:lalr/contextual': 300,
                   'judged:cyk/basic': 100, 'feature:single-derivation': 2000, 'feature:ambiguous-input': 100},
                  **{'feature:' + s: 150 for s in SHAPING}),
    'thorough-unused': dict({'distinct_nontrivial': 50000, 'corpus': 15, 'judged:cyk/basic': 1500, 'judged:lalr/basic': 5000},
                     **{'feature:' + s: 2500 for s in SHAPING}),
}
RULE = ("cases = (grammar, parser/lexer pair, keep_all_tokens, maybe_placeholders, accepted input); oracle: returned tree in "
        "{shape(D) : D derivation of the input} (reference enumerator + documented shaping rules applied to the grammar "
        "AST), and equal to the unique shaped tree for every engine when the input has one derivation; non-trivial = tree "
        "in which at least one shaping rule fired (token filtered/kept, rule inlined, ?-rule replaced, alias, None "
        "placeholder, template instance); distinct by (grammar, engine, options, input)")
ASSUMPTIONS = ["reference enumerator and Shaper in vlark/ref.py, written from docs/tree_construction.md and docs/grammar.md",
               "token identity is (type, value); the type of anonymous tokens is not compared (their naming is not part of the statement)",
               "grammars in which one rule can spell the empty sequence along two choice paths are skipped (lark keeps one of the identical empty productions; which shaping survives is unspecified)",
               "cyclic grammars are skipped (the reference enumeration is incomplete there)",
               "LALR rejections of members are C02's business (shift/reduce conflicts) and only counted here"]

ENGINES = [('earley', 'basic'), ('earley', 'dynamic'), ('earley', 'dynamic_complete'), ('lalr', 'basic'), ('lalr', 'contextual'), ('cyk', 'basic')]


def run_grammar(ctx, G, family, inputs, optsets, engines=ENGINES):
    text = print_grammar(G)
    if duplicate_empty_alternatives(G):
        ctx.count('skipped-duplicate-empty-alternatives')
        return
    if colliding_optionals(G):
        # two alternatives of one rule spell the same symbol sequence (a literal counts as the named terminal it coincides
        # with): lark raises the documented "Rules defined twice" or silently keeps one of them - either way the set of
        # derivations is not what the AST says, so tree-level oracles do not judge such grammars
        ctx.count('skipped-colliding-alternatives')
        return
    rg = RefGrammar(G)
    if rg.is_cyclic():
        ctx.count('skipped-cyclic')
        return
    named = named_types(rg)
    has_nullable = bool(rg.nullable())
    for opts in optsets:
        refs = {}
        for w in inputs:
            for mode in ('basic', 'dynamic', 'dynamic_complete'):
                member, inp = c01_model(rg, mode, w)
                if not member:
                    continue
                try:
                    ds = R.Chart(rg, inp).derivations(cap=200)
                except (R.TooMany, RecursionError):
                    ctx.count('skipped-too-many-derivations')
                    continue
                sh = R.Shaper(rg, inp, opts['keep_all_tokens'], opts['maybe_placeholders'])
                shapes = {}
                for d in ds:
                    sh.fired = set()
                    t = R.freeze(sh.shape(d))
                    shapes.setdefault(t, set()).update(sh.fired)
                refs[(w, mode)] = (len(ds), shapes)
        for parser, lexer in engines:
            kw = dict(opts)
            st, l = build(ctx, text, parser=parser, lexer=lexer, **kw)
            if st != 'ok':
                ctx.count('construction-%s:%s' % (st, parser))
                # a construction that exceeds the step budget is counted, not judged: the statement is about trees (the LALR
                # automaton of a few hundred compiled alternatives takes seconds; termination of Earley construction is C01's)
                continue
            mode = lexer if parser == 'earley' else 'basic'
            for w in inputs:
                if (w, mode) not in refs:
                    continue
                nd, shapes = refs[(w, mode)]
                case = {'grammar': G, 'engine': [parser, lexer], 'opts': opts, 'input': w, 'family': family}
                out = call(ctx, 'parse', l.parse, w)
                if out[0] == 'wall':
                    ctx.inconc('wall guard', case)
                    continue
                if out[0] == 'budget':
                    if parser == 'cyk':
                        ctx.count('cyk-too-expensive(not judged)')      # O(n^3 |G|) is CYK's nature, not a hang
                    else:
                        ctx.violation('no-termination', case, {})
                    continue
                if out[0] == 'exc':
                    if parser == 'lalr':
                        ctx.count('lalr-rejects-member(C02 scope)')
                    elif parser == 'cyk':
                        ctx.count('cyk-rejects-or-unsupported')
                        if not has_nullable:
                            # CYK has no empty rules; on every other grammar it "supports the grammar", and a ParseError on a
                            # member is a wrong answer like any other
                            ctx.violation('cyk-fails-on-member', case, {'exc': out[1]})
                    else:
                        ctx.violation('engine-rejects-member:%s/%s' % (parser, lexer), case, {'exc': out[1]})
                    continue
                got = R.erase_anon_types(out[1], named)
                fired = shapes.get(got)
                feats = ['family:' + family, 'single-derivation' if len(shapes) == 1 else 'ambiguous-input']
                if fired is not None:
                    feats += sorted(fired)
                ctx.count('judged:%s/%s' % (parser, lexer))
                ctx.judged([text, parser, lexer, opts, w], bool(fired), feats)
                if fired is None:
                    mech = 'tree-is-not-a-shaped-derivation' if len(shapes) > 1 else 'tree-differs-from-unique-derivation'
                    ctx.violation('%s:%s/%s' % (mech, parser, lexer), case, {'got': out[1], 'expected_one_of': sorted(shapes, key=repr)[:3]})
    ctx.sample({'grammar': text, 'family': family, 'inputs': inputs[:5]})


def T(name, s):
    return gen.term(name, ['s', s, ''])


A_, B_, C_, X_, U_ = T('A', 'a'), T('B', 'b'), T('C', 'c'), T('X', 'x'), T('_U', 'u')
tA, tB, tC, tX, tU = ['t', 'A'], ['t', 'B'], ['t', 'C'], ['t', 'X'], ['t', '_U']
al, ru, L = gen.alt, gen.rule, gen.LIT
m = lambda *alts: ['m', [al(list(a)) for a in alts]]
g = lambda *alts: ['g', [al(list(a)) for a in alts]]
q = lambda it, op, lo=0, hi=0: ['q', it, op, lo, hi]
ALLT = [A_, B_, C_, X_, U_]
CORPUS = [
    # pinned placeholder cases (DESIGN section 4 C03)
    ('nested-maybe', [ru('start', [al([tX, m([tA, m([tB])]), tX])])], ['xx', 'xax', 'xabx']),
    ('maybe-longest-alt', [ru('start', [al([m([tA], [tB, tC])])])], ['', 'a', 'bc']),
    ('maybe-in-star', [ru('start', [al([q(g([m([tA]), tB]), '*')])])], ['', 'b', 'ab', 'bab', 'abab']),
    ('maybe-filtered', [ru('start', [al([tX, m([L('a'), tU])])])], ['x', 'xau']),
    ('maybe-filtered-bang', [ru('start', [al([tX, m([L('a'), tU])])], mods='!')], ['x', 'xau']),
    ('maybe-inline-rule', [ru('start', [al([tX, m([['r', '_i']])])]), ru('_i', [al([tA, tB])])], ['x', 'xab']),
    ('maybe-sub-rule', [ru('start', [al([tX, m([['r', 'sub']])])]), ru('sub', [al([tA, tB])])], ['x', 'xab']),
    ('expand1-none', [ru('start', [al([tX, ['r', 'r']])]), ru('r', [al([m([tA])])], mods='?')], ['x', 'xa']),
    ('expand1-start-none', [ru('start', [al([m([tA])])], mods='?')], ['', 'a']),
    ('alias-placeholders', [ru('start', [al([tX, m([tA, tB])], 'al')])], ['x', 'xab']),
    ('expand1-alias', [ru('start', [al([['r', 'e'], tX])]), ru('e', [al([tA], 'named'), al([tB]), al([tA, tB])], mods='?')], ['ax', 'bx', 'abx']),
    # defect 2: ! beside non-! rule sharing a repeated sub-expression
    ('bang-shared-repeat', [ru('start', [al([['r', 'a'], L('z'), ['r', 'b']])]), ru('a', [al([q(L('x'), '+')])], mods='!'), ru('b', [al([q(L('x'), '+'), L('y')])])], ['xxzxxy', 'xzxy']),
    ('bang-shared-repeat-rev', [ru('start', [al([['r', 'b'], L('z'), ['r', 'a']])]), ru('b', [al([q(L('x'), '+'), L('y')])]), ru('a', [al([q(L('x'), '+')])], mods='!')], ['xxyzxx', 'xyzx']),
    ('bang-shared-big-repeat', [ru('start', [al([['r', 'a'], L('z'), ['r', 'b']])]), ru('a', [al([q(L('x'), '~', 2, 3)])], mods='!'), ru('b', [al([q(L('x'), '~', 2, 3), L('y')])])], ['xxzxxy', 'xxxzxxxy']),
    ('left-rec-inline-list', [ru('start', [al([['r', '_list']])]), ru('_list', [al([['r', '_list'], L(','), ['r', 'item']]), al([['r', 'item']])]), ru('item', [al([tA]), al([tB, m([tC])])])], ['a', 'a,b', 'a,bc,a', 'b,b,b,bc']),
    ('template', [ru('start', [al([['c', 'sep', [tA, L(',')]], tX, ['c', 'sep', [['r', 'w'], L('+')]]])]), ru('w', [al([tB]), al([tC, tC])]),
                  ru('sep', [al([['p', 'x'], q(g([['p', 's'], ['p', 'x']]), '*')])], params=['x', 's'])], ['axb', 'a,axb+cc', 'a,a,axcc+b+b']),
    # a !-template used inside another template with a literal argument: keeping tokens must not leak into the outer rule
    ('template-bang-nested', [ru('start', [al([['c', 'outer', [L('a')]]])]), ru('outer', [al([['c', 'inner', [['p', 'x']]], ['p', 'x']])], params=['x']),
                              ru('inner', [al([['p', 'x'], L('z')])], mods='!', params=['x'])], ['aza']),
    ('template-bang-sibling', [ru('start', [al([['c', 'inner', [L('a')]], ['c', 'plain', [L('a')]]])]), ru('plain', [al([['p', 'x'], tB])], params=['x']),
                               ru('inner', [al([['p', 'x'], L('z')])], mods='!', params=['x'])], ['azab']),
    # the same template instantiated with a literal and with the named terminal it coincides with (and from a !-rule): one
    # instance per kind of argument, whatever comes first
    ('template-literal-then-named-arg', [ru('start', [al([['c', 'outer', [L('a')]], L(','), ['c', 'outer', [tA]]])]), ru('outer', [al([['p', 'x'], tB])], params=['x'])], ['ab,ab']),
    ('template-named-then-literal-arg', [ru('start', [al([['c', 'outer', [tA]], L(','), ['c', 'outer', [L('a')]]])]), ru('outer', [al([['p', 'x'], tB])], params=['x'])], ['ab,ab']),
    ('template-inline', [ru('start', [al([['c', '_par', [tA]], ['c', '_par', [['r', 'w']]]])]), ru('w', [al([tB])]),
                         ru('_par', [al([L('('), ['p', 'x'], L(')')])], params=['x'])], ['(a)(b)']),
    # a repeated literal and the repeated named terminal it coincides with must not share a helper rule
    ('literal-vs-named-repeat', [ru('start', [al([['r', 'a'], L('z'), ['r', 'b']])]), ru('a', [al([q(L('a'), '+')])]), ru('b', [al([q(tA, '+')])])], ['aazaa', 'aza']),
    ('named-vs-literal-repeat', [ru('start', [al([['r', 'b'], L('z'), ['r', 'a']])]), ru('b', [al([q(tA, '+')])]), ru('a', [al([q(L('a'), '+')])])], ['aazaa', 'aza']),
    ('literal-vs-named-big-repeat', [ru('start', [al([['r', 'a'], L('z'), ['r', 'b']])]), ru('a', [al([q(L('a'), '~', 2, 3)])]), ru('b', [al([q(tA, '~', 2, 3), tX])])], ['aazaax', 'aaazaaax']),
    ('literal-vs-named-huge-repeat', [ru('start', [al([['r', 'a'], L('z'), ['r', 'b']])]), ru('a', [al([q(L('a'), '~', 50, 52)])]), ru('b', [al([q(tA, '~', 50, 52), tX])])],
     ['a' * 50 + 'z' + 'a' * 50 + 'x', 'a' * 52 + 'z' + 'a' * 51 + 'x']),
    ('named-vs-literal-huge-repeat', [ru('start', [al([['r', 'b'], L('z'), ['r', 'a']])]), ru('b', [al([q(tA, '~', 60, 60), tX])]), ru('a', [al([q(L('a'), '~', 60, 60)])])],
     ['a' * 60 + 'xz' + 'a' * 60]),
    ('literal-vs-named-star-group', [ru('start', [al([['r', 'a'], L('z'), ['r', 'b']])]), ru('a', [al([q(g([L('a'), tB]), '*')])]), ru('b', [al([q(g([tA, tB]), '*')])])], ['abzab', 'z', 'ababzab']),
    ('literal-eq-named', [ru('start', [al([L('a'), tA, ['r', 'k']])]), ru('k', [al([L('a'), tA])], mods='!')], ['aaaa']),
    ('underscore-term-bang', [ru('start', [al([tU, tA, ['r', 'k']])]), ru('k', [al([tU, tA])], mods='!')], ['uaua']),
    ('opt-vs-maybe', [ru('start', [al([q(tA, '?'), m([tB]), q(m([tC]), '?') if False else tX])])], ['x', 'ax', 'bx', 'abx']),
    ('tilde-in-maybe', [ru('start', [al([tX, m([q(tA, '~', 2, 2)])])])], ['x', 'xaa']),
    ('group-alias', [ru('start', [al([g([tA], [tB]), tX], 'ga'), al([tX])])], ['ax', 'bx', 'x']),
]
OPTSETS = [{'keep_all_tokens': k, 'maybe_placeholders': p} for k in (False, True) for p in (True, False)]


def run_batch(ctx):
    rng = ctx.rng
    n = PER_BATCH[ctx.tier]
    if ctx.batch == 0:
        for name, rules, inputs in CORPUS:
            G = {'rules': rules, 'terms': ALLT, 'ignore': [], 'start': ['start']}
            run_grammar(ctx, G, 'corpus:' + name, inputs, OPTSETS)
            ctx.count('corpus')
    if ctx.batch == 1:
        # parallel chains of unit rules that end in the same rule (CYK eliminates unit rules; what it keeps must not depend
        # on the iteration order of a set, so the same grammar is tried under many rule names)
        for k in range(24):
            n1, n2, n3, n4 = ['%s%d' % (c, k) for c in 'pqrs']
            rules = [ru('start', [al([['r', n1], ['r', n2]])]), ru(n1, [al([['r', n3]])]), ru(n2, [al([['r', n3]])]), ru(n3, [al([['r', n4]])]),
                     ru(n4, [al([tX, tB])])]
            run_grammar(ctx, {'rules': rules, 'terms': ALLT, 'ignore': [], 'start': ['start']}, 'corpus:parallel-unit-chains', ['xbxb'], OPTSETS[:1])
        ctx.count('corpus:parallel-unit-chains')
    for i in range(n):
        if not ctx.time_left():
            ctx.count('stopped-on-time-budget')
            break
        G = gen.ebnf(rng, p_rec=0.1)
        rg = RefGrammar(G)
        ex = gen.term_examples(rg, G)
        ins = set(gen.random_strings(rng, G['alphabet'], 6, 4))
        for _ in range(30):
            s = gen.sample_sentence(rg, rng, ex, depth=5)
            if s is not None:
                w = (' ' if G['ignore'] and rng.random() < 0.3 else '').join(x for _, x in s)
                if len(w) <= 9:
                    ins.add(w)
        run_grammar(ctx, G, 'ebnf', sorted(ins)[:24], rng.sample(OPTSETS, 2))


def replay(ctx, case):
    eng = [tuple(case['engine'])]
    run_grammar(ctx, case['grammar'], case['family'], [case['input']] if case['input'] is not None else [], [case['opts']], eng)


def selftest(ctx):
    # the Shaper against the documented examples
    G = {'rules': [ru('start', [al([tX, m([tA, m([tB])]), tX])])], 'terms': ALLT, 'ignore': [], 'start': ['start']}
    rg = RefGrammar(G)
    for w, exp in [('xx', 2), ('xax', 1), ('xabx', 0)]:
        inp, _ = basic_tokens(rg, w)
        (d,) = R.Chart(rg, inp).derivations()
        t = R.Shaper(rg, inp).shape(d)
        assert t[2].count(None) == exp, (w, t)
    ctx.monitor('reference-selftest')

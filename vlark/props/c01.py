"""C01  Earley accepts exactly the language of the grammar (basic / dynamic / dynamic_complete);
construction terminates and fails only with the documented GrammarError."""
from ..core import STEPS, digest
from ..common import build, call, basic_tokens
from ..gram import RefGrammar, print_grammar, colliding_optionals
from .. import ref as R, gen

NBATCH = {'quick': 16, 'thorough': 64}
BUDGET_S = {'quick': 70, 'thorough': 180}
PER_BATCH = {'quick': 110, 'thorough': 2000}     # grammars per family per batch
FLOORS = {
    'quick': {'distinct_nontrivial': 1500, 'feature:cyclic': 100, 'feature:nullable': 300,
              'feature:ignore-carry': 100, 'judged:basic': 800, 'judged:dynamic': 1500,
              'judged:dynamic_complete': 1500, 'feature:accepted': 800, 'feature:rejected': 800,
              'corpus': 11, 'anchor:predict_and_complete': 1, 'anchor:xearley.scan': 1},
    'thorough-unused': {'distinct_nontrivial': 400000, 'feature:cyclic': 30000, 'feature:nullable': 80000,
                 'feature:ignore-carry': 30000, 'corpus': 10},
}
RULE = ("cases = (grammar, Earley lexer mode, input string); grammars from seeded generators bnf-tiny "
        "(random BNF over 1-3 one-char terminals, inputs = all strings up to length 4-5), shaped recursion "
        "patterns, regex-terminal grammars with %ignore (inputs = random strings over 'abcx #'), ebnf profile; "
        "oracle = reference chart (least fixpoint over the grammar AST) in the reading of the lexer mode; "
        "non-trivial = input of >=2 characters on a grammar with a recursive or nullable rule; distinct by "
        "(grammar text, lexer, input)")
ASSUMPTIONS = ["CPython re on a single terminal pattern is the meaning of a terminal",
               "reference chart/recogniser in vlark/ref.py (two independently written recognisers must agree before an alarm)",
               "basic-lexer cases use collision-free terminals, so tokenisation is not in question",
               "termination is judged as a logical step budget (python function entries inside lark), not wall clock"]

LEXERS = ('basic', 'dynamic', 'dynamic_complete')


def setup(ctx):
    from lark.parsers import earley, xearley
    STEPS.watch('predict_and_complete', earley.Parser.predict_and_complete)
    STEPS.watch('xearley.scan', xearley.Parser._parse)


def model(rg, lexer, w, variant=None):
    """-> (member: bool, input model)"""
    if lexer == 'basic':
        inp, fail = basic_tokens(rg, w)
        if inp is None:
            return False, None
    elif lexer == 'dynamic':
        inp = R.CharInput(rg, w, 'pref', 'pref')
    else:
        tm, im = variant or ('all', 'all')
        inp = R.CharInput(rg, w, tm, im)
    return R.Chart(rg, inp).accepts(), inp


def classify_dc(rg, w, got):
    """known mechanisms of dynamic_complete (findings F-C01-1 ignore-longest-only, F-C01-2
    truncation-of-preferred-match); got = lark's verdict (bool).  Returns finding id or None."""
    v1 = model(rg, 'dynamic_complete', w, ('all', 'pref'))[0]
    if got == v1:
        return 'F-C01-1'
    v2 = model(rg, 'dynamic_complete', w, ('trunc', 'all'))[0]
    v3 = model(rg, 'dynamic_complete', w, ('trunc', 'pref'))[0]
    if got in (v2, v3):
        # require that some terminal really has preferred != longest somewhere in w
        for T in rg.terms.values():
            rx = T.compiled()
            for i in range(len(w)):
                a = R.match_lengths(rx, w, i, 'all')
                p = R.match_lengths(rx, w, i, 'pref')
                if a and p and max(a) != max(p):
                    return 'F-C01-2' if got == v2 else 'F-C01-1+2'
    return None


def check_case(ctx, G, text, rg, l, lexer, w, feats, family):
    case = {'grammar': G, 'lexer': lexer, 'input': w, 'family': family}
    exp, inp = model(rg, lexer, w)
    out = call(ctx, 'parse', l.parse, w)
    if out[0] == 'wall':
        ctx.inconc('wall-clock guard in parse', case)
        return
    nontriv = len(w) >= 2 and ('recursive' in feats or 'nullable' in feats)
    f = list(feats) + (['accepted'] if exp else ['rejected'])
    if rg.ignore and any(R.match_lengths(rg.terms[t].compiled(), w, i, 'pref') for t in rg.ignore for i in range(len(w))):
        f.append('ignore-carry')
    ctx.judged([text, lexer, w], nontriv, f)
    ctx.count('judged:' + lexer)
    if out[0] == 'budget':
        ctx.violation('no-termination-within-step-budget', case, {'budget': out[1]})
        return
    got = out[0] == 'ok'
    bad = None
    if got != exp:
        bad = 'accepts-nonmember' if got else 'rejects-member'
    elif not got and not out[1].get('is_ui'):
        bad = 'rejection-not-UnexpectedInput'
    if bad is None:
        return
    finding = None
    if bad != 'rejection-not-UnexpectedInput':
        # alarm confirmation with the second recogniser
        exp2 = R.recognise2(rg, inp) if inp is not None else False
        if exp2 != exp:
            ctx.inconc('ORACLE-DISAGREEMENT chart vs recognise2', case)
            return
        if lexer == 'dynamic_complete':
            finding = classify_dc(rg, w, got)
    ctx.violation(bad + ':' + lexer, case, {'expected_member': exp, 'lark': out if out[0] != 'ok' else 'accepted'}, finding)


def run_grammar(ctx, G, family, lexers=LEXERS, inputs=None):
    text = print_grammar(G)
    try:
        rg = RefGrammar(G)
    except Exception as e:
        ctx.inconc('reference grammar construction failed: %r' % e, {'grammar': G})
        return
    feats = []
    if rg.is_cyclic():
        feats.append('cyclic')
    if rg.nullable() & rg.reachable():
        feats.append('nullable')
    if rg.is_recursive():
        feats.append('recursive')
    if rg.ignore:
        feats.append('has-ignore')
    feats.append('family:' + family)
    for lexer in lexers:
        st, l = build(ctx, text, parser='earley', lexer=lexer)
        ctx.count('constructions')
        if st == 'wall':
            ctx.inconc('wall-clock guard in construction', {'grammar': G, 'lexer': lexer})
            continue
        if st == 'budget':
            ctx.violation('construction-no-termination', {'grammar': G, 'lexer': lexer, 'family': family, 'input': None}, {'budget': l})
            continue
        if st == 'exc':
            ok = l['class'] == 'GrammarError' and 'Rules defined twice' in l.get('msg', '') and colliding_optionals(G)
            ctx.count('construction-documented-error' if ok else 'construction-error')
            if not ok:
                ctx.violation('construction-fails', {'grammar': G, 'lexer': lexer, 'family': family, 'input': None}, {'exc': l})
            continue
        for w in inputs:
            check_case(ctx, G, text, rg, l, lexer, w, feats, family)
    ctx.sample({'grammar': text, 'family': family, 'inputs': inputs[:6], 'features': feats})


CORPUS = [
    # (grammar text as AST builder, lexers, inputs)  -- mechanisms named in the anchors
    ('hidden-left-rec', {'rules': [gen.rule('start', [gen.alt([['r', 'n'], ['r', 'start'], gen.LIT('a')]), gen.alt([gen.LIT('b')])]),
                                   gen.rule('n', [gen.alt([]), gen.alt([gen.LIT('a')])])], 'terms': [], 'ignore': [], 'start': ['start']},
     LEXERS, ['b', 'ba', 'aba', 'baa', 'abaa', 'ab', '', 'aab']),
    ('unit-cycle', {'rules': [gen.rule('start', [gen.alt([['r', 'start']]), gen.alt([gen.LIT('a')])])], 'terms': [], 'ignore': [], 'start': ['start']},
     LEXERS, ['a', '', 'aa']),
    ('nullable-start', {'rules': [gen.rule('start', [gen.alt([['r', 'x'], ['r', 'x']])]), gen.rule('x', [gen.alt([]), gen.alt([gen.LIT('a')])])], 'terms': [], 'ignore': [], 'start': ['start']},
     LEXERS, ['', 'a', 'aa', 'aaa']),
    ('trailing-ignore', {'rules': [gen.rule('start', [gen.alt([['t', 'A'], ['t', 'A']])])], 'terms': [gen.term('A', ['x', 'a+', '']), gen.term('WS', ['x', ' +', ''])], 'ignore': ['WS'], 'start': ['start']},
     ('dynamic', 'dynamic_complete'), ['a a', ' a a ', 'aa', 'a a  ', '  ', 'a', 'aaa', ' aa a']),
    ('ignore-adjacent', {'rules': [gen.rule('start', [gen.alt([gen.LIT('a'), ['t', 'X']])])], 'terms': [gen.term('X', ['s', ' x', '']), gen.term('WS', ['x', r'\s+', ''])], 'ignore': ['WS'], 'start': ['start']},
     ('dynamic', 'dynamic_complete'), ['a x', 'a  x', 'ax', 'a   x ']),
    ('pref-vs-longest', {'rules': [gen.rule('start', [gen.alt([['t', 'D']]), gen.alt([['t', 'D'], gen.LIT('b')])])], 'terms': [gen.term('D', ['x', 'a|ab', ''])], 'ignore': [], 'start': ['start']},
     ('dynamic_complete',), ['a', 'ab', 'abb', 'b']),
    # a terminal whose match lengths have a gap (on "aaba": 4, 2, 1): dynamic_complete must offer every one of them
    ('gap-in-match-lengths', {'rules': [gen.rule('start', [gen.alt([['t', 'G'], ['t', 'G']])])], 'terms': [gen.term('G', ['x', 'a+(?:ba+)?', ''])], 'ignore': [], 'start': ['start']},
     ('dynamic', 'dynamic_complete'), ['aaba', 'aba', 'aa', 'abaa', 'aabaa', 'a', 'aaaba', 'ab']),
    # terminals built from other terminals and regexps: each part is a regular language of its own (a|b followed by c is {ac, bc})
    ('composite-terminal-alternation', {'rules': [gen.rule('start', [gen.alt([['t', 'X']]), gen.alt([['t', 'Z'], ['t', 'Z']])])],
                                        'terms': [dict(gen.term('X', ['x', '(?:a|b)c', '']), text='Y "c"'), gen.term('Y', ['x', 'a|b', '']),
                                                  dict(gen.term('Z', ['x', 'd(?:e|f+)', '']), text='"d" /e|f+/')], 'ignore': [], 'start': ['start']},
     LEXERS, ['ac', 'bc', 'a', 'abc', 'c', 'dede', 'dfdff', 'dd', 'de', 'dedf']),
    ('complete-lex-split', {'rules': [gen.rule('start', [gen.alt([['t', 'A'], ['t', 'AB']])])], 'terms': [gen.term('A', ['x', 'a+', '']), gen.term('AB', ['x', 'a+b', ''])], 'ignore': [], 'start': ['start']},
     ('dynamic', 'dynamic_complete'), ['aab', 'ab', 'aaab', 'aa']),
    ('empty-rule-mid', {'rules': [gen.rule('start', [gen.alt([gen.LIT('a'), ['r', 'e'], gen.LIT('b')])]), gen.rule('e', [gen.alt([])])], 'terms': [], 'ignore': [], 'start': ['start']},
     LEXERS, ['ab', 'a', 'b', 'abb']),
    ('right-rec-long', {'rules': [gen.rule('start', [gen.alt([gen.LIT('a'), ['r', 'start']]), gen.alt([])])], 'terms': [], 'ignore': [], 'start': ['start']},
     LEXERS, ['a' * 30, 'a' * 30 + 'b']),
    ('left-rec-long', {'rules': [gen.rule('start', [gen.alt([['r', 'start'], gen.LIT('a')]), gen.alt([gen.LIT('a')])])], 'terms': [], 'ignore': [], 'start': ['start']},
     LEXERS, ['a' * 30, '', 'a' * 12 + 'b']),
    ('colliding-optionals', {'rules': [gen.rule('start', [gen.alt([['m', [gen.alt([gen.LIT('a')])]], ['m', [gen.alt([gen.LIT('a')])]]])])], 'terms': [], 'ignore': [], 'start': ['start']},
     ('basic',), ['a']),
]


def run_batch(ctx):
    rng = ctx.rng
    n = PER_BATCH[ctx.tier]
    maxlen = 4 if ctx.tier == 'quick' else 5
    if ctx.batch == 0:
        for name, G, lexers, inputs in CORPUS:
            G = dict(G)
            G.setdefault('alphabet', ['a', 'b'])
            run_grammar(ctx, G, 'corpus:' + name, lexers, inputs)
            ctx.count('corpus')
    for i in range(n):
        if not ctx.time_left():
            ctx.count('stopped-on-time-budget')
            break
        G = gen.bnf_tiny(rng)
        run_grammar(ctx, G, 'bnf-tiny', LEXERS, gen.all_strings(G['alphabet'], maxlen, cap=60 if ctx.tier == 'quick' else 150, rng=rng))
        if i % 3 == 0:
            G = gen.shaped_bnf(rng)
            run_grammar(ctx, G, 'shaped', LEXERS, gen.all_strings(G['alphabet'], maxlen + 1, cap=80, rng=rng))
        G = gen.regex_grammar(rng)
        run_grammar(ctx, G, 'regex', ('dynamic', 'dynamic_complete'), gen.random_strings(rng, G['alphabet'], 50, 6))
        if i % 2 == 0:
            G = gen.regex_grammar(rng, pref_sensitive=True)
            run_grammar(ctx, G, 'regex-pref', ('dynamic_complete',), gen.random_strings(rng, G['alphabet'], 40, 6))
        if i % 2 == 1:
            G = gen.ebnf(rng, profile='language')
            rg = RefGrammar(G)
            ex = gen.term_examples(rg, G)
            ins = set(gen.random_strings(rng, G['alphabet'], 15, 5))
            for _ in range(25):
                s = gen.sample_sentence(rg, rng, ex, depth=4)
                if s is not None:
                    w = ''.join(x for _, x in s)
                    if len(w) <= 10:
                        ins.add(w)
                        ins.add(gen.mutate(rng, w, G['alphabet']))
            run_grammar(ctx, G, 'ebnf', LEXERS, sorted(ins))


def replay(ctx, case):
    G = case['grammar']
    if case.get('input') is None:
        run_grammar(ctx, G, case.get('family', 'replay'), (case['lexer'],), [])
    else:
        run_grammar(ctx, G, case.get('family', 'replay'), (case['lexer'],), [case['input']])


def selftest(ctx):
    # textbook checks of the references
    G = {'rules': [gen.rule('start', [gen.alt([['r', 'start'], gen.LIT('+'), ['r', 'start']]), gen.alt([gen.LIT('a')])])], 'terms': [], 'ignore': [], 'start': ['start']}
    rg = RefGrammar(G)
    for w, exp, nd in [('a', True, 1), ('a+a', True, 1), ('a+a+a', True, 2), ('a+', False, 0), ('', False, 0), ('a+a+a+a', True, 5)]:
        inp, _ = basic_tokens(rg, w)
        ch = R.Chart(rg, inp)
        assert ch.accepts() == exp == R.recognise2(rg, inp), w
        if exp:
            assert len(ch.derivations()) == nd, (w, len(ch.derivations()))
    assert not rg.is_cyclic() and rg.is_recursive()
    G2 = {'rules': [gen.rule('start', [gen.alt([['r', 'start']]), gen.alt([gen.LIT('a')])])], 'terms': [], 'ignore': [], 'start': ['start']}
    assert RefGrammar(G2).is_cyclic()
    ctx.monitor('reference-selftest')

"""C08  rejections raise UnexpectedInput subclasses at the first offending position; the reported
continuation sets can be trusted in the stated direction."""
from ..core import STEPS, digest
from ..common import build, call, basic_tokens, lark_names
from ..gram import RefGrammar, print_grammar
from .. import ref as R, gen
from ..lalr_ref import from_lark_rules, TooBig, Diverges, END
from .c04 import dc_safe_regex_grammar

NBATCH = {'quick': 16, 'thorough': 64}
BUDGET_S = {'quick': 80, 'thorough': 180}
PER_BATCH = {'quick': 80, 'thorough': 1500}
PARSE_BUDGET = 1_500_000
ENGINES = [('lalr', 'basic'), ('lalr', 'contextual'), ('earley', 'basic'), ('earley', 'dynamic'), ('earley', 'dynamic_complete'), ('cyk', 'basic')]
FLOORS = {
    'quick': dict({'distinct_nontrivial': 6000, 'kind:parser-error': 6000, 'kind:eof-error': 2500, 'kind:lexer-error': 800,
                   'set:dynamic-allowed-exact': 2500, 'set:earley-basic-expected-superset': 1500, 'set:lalr-accepts-subset': 2500,
                   'pos:lalr==reference-driver': 2500, 'pos:lalr==first-non-viable-token': 800, 'pos:dynamic==max-live-offset': 2500,
                   'eof:$END-borrows-last-token': 600, 'on_error:skip-everything': 3000, 'on_error:$END-after-recovery': 300, 'feature:has-ignore': 1500, 'corpus': 6},
                  **{'judged:%s/%s' % e: 800 for e in ENGINES}),
    'thorough-unused': dict({'distinct_nontrivial': 120000, 'kind:parser-error': 100000, 'kind:eof-error': 40000, 'kind:lexer-error': 12000, 'corpus': 6},
                     **{'judged:%s/%s' % e: 12000 for e in ENGINES}),
}
RULE = ("cases = (grammar, parser/lexer pair, rejected input): near misses (deletion, insertion, substitution, swap, every proper "
        "prefix) of sampled sentences plus random strings; oracle: exception is an UnexpectedInput subclass (CYK: ParseError), "
        "within a step budget; offending token index (LALR, Earley+basic) == error index of the reference shift-preferring LR "
        "driver / first token after the longest viable prefix computed by the reference on the grammar AST; lexing failures at "
        "the reference lexer's offset; dynamic lexers: pos_in_stream == largest character offset still alive in the reference "
        "scannerless model, line/column recomputed from the text; $END carries the last token's coordinates, Earley raises "
        "UnexpectedEOF; sets: dynamic allowed/expected == reference next terminals (reduced grammars), Earley+basic expected "
        "superset, LALR accepts subset of the legal next terminals and of expected; non-trivial = rejection after >=1 consumed "
        "token/character; distinct by (grammar, engine, input)")
ASSUMPTIONS = ["reference chart + viable-prefix closure (vlark/ref.py Viable) over the grammar AST; reference LALR(1) for the LALR error index",
               "exact positions/sets are demanded on reduced grammars; with useless symbols lark may only stop later, never earlier",
               "basic-lexer engines use collision-free terminals (tokenisation is not in question)",
               "dynamic_complete uses terminals whose every shorter match is a truncation of the preferred one and single-character ignores (known findings of C01 cannot apply)",
               "inputs on which the conflict-resolved LALR automaton itself reduces forever are counted, not judged"]


def setup(ctx):
    from lark.parsers import lalr_parser_state, earley, xearley
    STEPS.watch('ParserState.feed_token', lalr_parser_state.ParserState.feed_token)
    STEPS.watch('xearley._parse', xearley.Parser._parse)
    STEPS.watch('earley._parse', earley.Parser._parse)


def names_of(names, tids):
    return {names.get(t, '?%d' % t) for t in tids}


def judge_token_level(ctx, rg, ref, names, is_red, parser, lexer, s, w, out, case, key):
    """LALR and Earley with the basic/contextual lexer"""
    exc = out[1]
    inp, fail = basic_tokens(rg, w)
    pre = inp
    if inp is None:
        pre, _ = basic_tokens(rg, w[:fail])
        if pre is None:
            ctx.inconc('reference lexer is not prefix-stable', case)
            return None
    toks = pre.toks
    n = len(toks)
    ch = R.Chart(rg, pre)
    via = R.Viable(rg, pre, ch, s)
    K = via.longest_viable()
    member = inp is not None and ch.accepts(s)
    if member:
        return 'member'
    # where does the reference expect the error?
    if parser == 'lalr':
        tn = [names.get(t[0]) for t in toks]
        if None in tn:
            ctx.inconc('terminal name unknown', case)
            return None
        try:
            if inp is None:
                # feed the tokens before the lexing failure, no $END
                stack, idx = [ref.start_state[s]], None
                for i, t in enumerate(tn):
                    st2 = ref.feed(stack, t)
                    if st2 is None:
                        idx = i
                        break
                    stack = st2
            else:
                d = ref.drive(s, tn)
                if d[0] == 'loop':
                    raise Diverges()
                if d[0] == 'accept':
                    return 'member'       # only with conflicts resolved differently from the language; C02's business
                idx = d[1]
        except Diverges:
            ctx.count('reference-automaton-diverges')
            return None
        if is_red and not (ref.sr or ref.rr_resolved) and idx is not None and idx != K and not (idx == n and K == n):
            ctx.inconc('ORACLE-DISAGREEMENT reference LR driver vs viable-prefix closure', case)
            return None
        exp_idx = idx
    else:
        exp_idx = K if (K < n or inp is not None) else None
        if inp is None and K == n:
            exp_idx = None
    feats = []
    problems = []
    if exp_idx is None:
        # every token before the lexing failure is fine: the lexer's error comes first
        kind = 'lexer-error'
        if exc['class'] != 'UnexpectedCharacters':
            problems.append(('expected-UnexpectedCharacters-from-lexer', {}))
        elif exc.get('pos_in_stream') != fail:
            problems.append(('lexer-error-offset', {'expected': fail}))
        elif (exc.get('line'), exc.get('column')) != R.line_col(w, fail):
            problems.append(('lexer-error-line/column', {'expected': R.line_col(w, fail)}))
        elif parser == 'earley' and K == n and isinstance(exc.get('allowed'), list):
            # "under Earley with the basic lexer it contains all of them": also the keywords that live inside a regexp terminal
            legal = {names.get(t) for t in via.next_terms(n)} - {None}
            ctx.count('allowed-contains-legal:earley-basic-lexer-error')
            if not legal <= set(exc['allowed']):
                problems.append(('allowed-misses-a-terminal-that-can-come-next', {'legal': sorted(legal), 'allowed': exc['allowed']}))
    elif exp_idx < n:
        kind = 'parser-error'
        tok = toks[exp_idx]
        if exc['class'] != 'UnexpectedToken':
            problems.append(('expected-UnexpectedToken', {}))
        else:
            t = exc['token']
            if not isinstance(t, list) or t[3] != tok[2]:
                if is_red or (isinstance(t, list) and t[3] is not None and t[3] < tok[2]):
                    problems.append(('offending-token-position', {'expected_token_index': exp_idx, 'expected_start': tok[2]}))
            elif (t[5], t[6]) != R.line_col(w, tok[2]) or exc.get('pos_in_stream') != tok[2] or (exc.get('line'), exc.get('column')) != (t[5], t[6]):
                problems.append(('offending-token-coordinates', {'expected': R.line_col(w, tok[2])}))
            else:
                ctx.count('pos:lalr==reference-driver' if parser == 'lalr' else 'pos:earley-basic==first-non-viable-token')
                if parser == 'lalr' and is_red and exp_idx == K:
                    ctx.count('pos:lalr==first-non-viable-token')
    else:
        kind = 'eof-error'
        if parser == 'lalr':
            if exc['class'] != 'UnexpectedToken' or exc.get('token_type') != END:
                problems.append(('expected-UnexpectedToken($END)', {}))
            else:
                t = exc['token']
                if n:
                    last = toks[-1]
                    l, c = R.line_col(w, last[2])
                    el, ec = R.line_col(w, last[3])
                    want = [last[2], last[3], l, c, el, ec]
                else:
                    want = [0, None, 1, 1, None, None]
                got = t[3:9] if isinstance(t, list) else None
                if got is None or (n and got != want) or (not n and (got[0], got[2], got[3]) != (0, 1, 1)):
                    problems.append(('$END-does-not-carry-last-token-coordinates', {'expected': want}))
                else:
                    ctx.count('eof:$END-borrows-last-token')
        else:
            if exc['class'] != 'UnexpectedEOF':
                problems.append(('expected-UnexpectedEOF', {}))
    # continuation sets
    if not problems and exp_idx is not None and is_red:
        k = min(exp_idx, n)
        legal = names_of(names, via.next_terms(k))
        if k == n and inp is not None and member:
            legal.add(END)
        if ch.accepts(s) is False and k in via.complete:
            legal.add(END)
        if parser == 'earley':
            expd = set(exc.get('expected') or [])
            legal.discard(END)          # end of input is not a terminal for Earley
            if k == K and not legal <= expd:
                problems.append(('earley-basic-expected-misses-legal-terminal', {'legal': sorted(legal), 'expected': sorted(expd)}))
            elif k == K:
                ctx.count('set:earley-basic-expected-superset')
        elif exc['class'] == 'UnexpectedToken':
            acc = exc.get('accepts')
            expd = set(exc.get('expected') or [])
            if acc == 'BUDGET':
                ctx.count('accepts-not-judged:budget')
            elif acc is None:
                problems.append(('lalr-accepts-missing', {}))
            else:
                acc = set(acc)
                if k == K and not acc <= legal:
                    problems.append(('lalr-accepts-has-illegal-terminal', {'legal': sorted(legal), 'accepts': sorted(acc)}))
                elif not acc <= expd:
                    fid = 'F-C08-1' if (lexer == 'contextual' and acc - expd == {END}) else None
                    problems.append(('lalr-accepts-not-subset-of-expected', {'expected': sorted(expd), 'accepts': sorted(acc)}, fid))
                elif k == K:
                    ctx.count('set:lalr-accepts-subset')
    ctx.count('kind:' + kind)
    return kind, problems, (exp_idx or 0) >= 1 or (exp_idx is None and fail >= 1)


def judge_scannerless(ctx, rg, names, is_red, lexer, s, w, out, case):
    exc = out[1]
    mode = ('pref', 'pref') if lexer == 'dynamic' else ('all', 'all')
    inp = R.CharInput(rg, w, *mode)
    ch = R.Chart(rg, inp)
    if ch.accepts(s):
        return 'member'
    via = R.Viable(rg, inp, ch, s)
    live = via.live_chars()
    M = max(live)
    problems = []
    n = len(w)
    if M == n:
        kind = 'eof-error'
        if exc['class'] != 'UnexpectedEOF':
            problems.append(('expected-UnexpectedEOF', {'reference_max_live_offset': M}))
        got_set = set(exc.get('expected') or [])
    else:
        kind = 'parser-error'
        if exc['class'] != 'UnexpectedCharacters':
            problems.append(('expected-UnexpectedCharacters', {'reference_max_live_offset': M}))
        elif exc.get('pos_in_stream') != M:
            if is_red or exc.get('pos_in_stream', -1) < M:
                problems.append(('error-offset', {'expected': M}))
        elif (exc.get('line'), exc.get('column')) != R.line_col(w, M):
            problems.append(('error-line/column', {'expected': R.line_col(w, M)}))
        else:
            ctx.count('pos:dynamic==max-live-offset')
        got_set = set(exc.get('allowed') or [])
    if not problems and is_red and (M == n or exc.get('pos_in_stream') == M):
        legal = names_of(names, via.allowed_at(M))
        if got_set != legal:
            problems.append(('dynamic-allowed-set-differs-from-legal-next-terminals', {'legal': sorted(legal), 'lark': sorted(got_set)}))
        else:
            ctx.count('set:dynamic-allowed-exact')
    ctx.count('kind:' + kind)
    return kind, problems, M >= 1


def on_error_checks(ctx, rg, l, lexer, s, w, case):
    """parse(text, on_error=handler) on a rejected input: (a) a handler that skips everything must still end - with a tree
    or an UnexpectedInput - within the step budget ("never a hang"); (b) a handler that skips bad tokens but gives up at
    the end of input must leave an unexpected $END that carries the coordinates of the last token of the text"""
    out = call(ctx, 'parse(on_error)', l.parse, w, start=s, on_error=lambda e: True, budget=PARSE_BUDGET)
    ctx.count('on_error:skip-everything')
    if out[0] == 'budget':
        ctx.violation('hang:parse(on_error)-does-not-end:lalr/%s' % lexer, dict(case, on_error='skip-everything'), {'budget': out[1]})
        return
    if out[0] == 'exc' and not out[1].get('is_ui'):
        ctx.violation('parse(on_error)-raises-other-exception:lalr/%s' % lexer, dict(case, on_error='skip-everything'), {'exc': out[1]})
        return
    inp, fail = basic_tokens(rg, w)
    if inp is None or not inp.toks:
        return

    def give_up_at_end(e):
        return getattr(getattr(e, 'token', None), 'type', None) not in (None, END)
    out = call(ctx, 'parse(on_error)', l.parse, w, start=s, on_error=give_up_at_end, budget=PARSE_BUDGET)
    if out[0] == 'exc' and out[1].get('token_type') == END and isinstance(out[1].get('token'), list):
        last = inp.toks[-1]
        l1, c1 = R.line_col(w, last[2])
        l2, c2 = R.line_col(w, last[3])
        ctx.count('on_error:$END-after-recovery')
        if out[1]['token'][3:9] != [last[2], last[3], l1, c1, l2, c2]:
            ctx.violation('$END-after-recovery-does-not-carry-last-token-coordinates:lalr/%s' % lexer, dict(case, on_error='give-up-at-end'),
                          {'expected': [last[2], last[3], l1, c1, l2, c2], 'token': out[1]['token']})


def judge_not_earlier(ctx, rg, lexer, s, w, out, ref=None):
    """grammars with useless symbols: parsers follow productions that can never complete, so they may
    notice the error later than the first non-extendable position, but never before it.
    ref: the reference automaton when the parser is LALR - once a conflict was resolved (shift preferred, priorities)
    the automaton recognises less than the grammar derives and the grammar's viable prefixes say nothing"""
    exc = out[1]
    if ref is not None and (ref.sr or ref.rr_resolved):
        ctx.count('not-judged:non-reduced-grammar-with-resolved-conflicts')
        return None
    if lexer.startswith('dynamic'):
        inp = R.CharInput(rg, w, *(('pref', 'pref') if lexer == 'dynamic' else ('all', 'all')))
        ch = R.Chart(rg, inp)
        if ch.accepts(s):
            return 'member'
        M = max(R.Viable(rg, inp, ch, s).live_chars())
        pos = exc.get('pos_in_stream')
        bad = exc['class'] == 'UnexpectedCharacters' and pos is not None and pos < M
        return 'non-reduced', ([('error-reported-before-first-offending-offset', {'expected_at_least': M})] if bad else []), M >= 1
    inp, fail = basic_tokens(rg, w)
    pre = inp if inp is not None else basic_tokens(rg, w[:fail])[0]
    if pre is None:
        return None
    ch = R.Chart(rg, pre)
    if inp is not None and ch.accepts(s):
        return 'member'
    K = R.Viable(rg, pre, ch, s).longest_viable()
    first_bad = pre.toks[K][2] if K < len(pre.toks) else (fail if inp is None else len(w))
    pos = exc.get('pos_in_stream')
    bad = exc['class'] in ('UnexpectedToken', 'UnexpectedCharacters') and exc.get('token_type') != END and pos is not None and 0 <= pos < first_bad
    return 'non-reduced', ([('error-reported-before-first-offending-position', {'expected_at_least': first_bad})] if bad else []), K >= 1


def run_grammar(ctx, G, family, inputs, engines=ENGINES):
    G = gen.prune(G)
    text = print_grammar(G)
    starts = list(G.get('start') or ['start'])
    case0 = {'grammar': G, 'family': family}
    try:
        rg = RefGrammar(G)
    except Exception as e:
        ctx.inconc('reference grammar construction failed: %r' % e, case0)
        return
    is_red = rg.is_reduced()
    feats = ['family:' + family] + (['has-ignore'] if rg.ignore else []) + (['non-reduced'] if not is_red else [])
    ref = None
    names = None
    built = {}
    for parser, lexer in engines:
        kw = {}
        if parser == 'cyk':
            # CYK rejects empty rules and its construction does not terminate on unit cycles; neither is C08's subject
            if any(not p.rhs for p in rg.productions()) or rg.is_cyclic():
                continue
            kw['budget'] = 400_000
        st, l = build(ctx, text, parser=parser, lexer=lexer, start=starts, **kw)
        if st != 'ok':
            ctx.count('construction-%s:%s/%s' % (st, parser, lexer))
            continue
        built[(parser, lexer)] = l
        if names is None:
            names = lark_names(rg, l)
    if any(p == 'lalr' for p, _ in built):
        st, le = build(ctx, text, parser='earley', lexer='basic', priority='normal', start=starts)
        try:
            ref = from_lark_rules(le.rules, starts) if st == 'ok' else None
        except TooBig:
            ref = None
        if ref is None or ref.has_rr:
            built = {k: v for k, v in built.items() if k[0] != 'lalr'}
    ctx.sample({'grammar': text, 'family': family, 'inputs': inputs[:6], 'engines': ['%s/%s' % e for e in built]})
    for (parser, lexer), l in built.items():
        hist = []         # what this instance has parsed so far: a verdict that depends on it (a cache filled by an earlier
                          # rejection) must be reproducible from the replay file
        for s in starts:
            for w in inputs:
                case = dict(case0, engine=[parser, lexer], start=s, input=w, earlier=list(hist[-60:]))
                hist.append([s, w])
                out = call(ctx, 'parse', l.parse, w, start=s, budget=PARSE_BUDGET)
                if out[0] == 'wall':
                    ctx.inconc('wall guard', case)
                    continue
                if out[0] == 'ok':
                    ctx.count('accepted(not judged)')
                    continue
                if out[0] == 'budget':
                    if parser == 'lalr':
                        inp, fail = basic_tokens(rg, w)
                        pre = inp if inp is not None else basic_tokens(rg, w[:fail])[0]
                        tn = [names.get(t[0]) for t in pre.toks] if pre is not None else []
                        try:
                            div = None not in tn and (ref.prefix_diverges(s, tn) or (inp is not None and ref.drive(s, tn)[0] == 'loop'))
                        except Exception:
                            div = False
                        if div or not is_red:
                            ctx.count('reference-automaton-diverges')
                            continue
                    ctx.judged([text, parser, lexer, s, w], False, feats)
                    ctx.violation('hang:no-result-within-step-budget:%s/%s' % (parser, lexer), case, {'budget': out[1]})
                    continue
                exc = out[1]
                if parser == 'lalr' and (len(hist) % 3 == 0):
                    on_error_checks(ctx, rg, l, lexer, s, w, case)
                if parser == 'cyk':
                    r = ('cyk', [] if (exc['class'] == 'ParseError' or exc['is_ui']) else [('cyk-raises-other-exception', {})], len(w) >= 1)
                elif not exc.get('is_ui'):
                    r = ('not-UnexpectedInput', [('rejection-is-not-an-UnexpectedInput', {})], len(w) >= 1)
                elif not is_red:
                    r = judge_not_earlier(ctx, rg, lexer, s, w, out, ref if parser == 'lalr' else None)
                elif lexer.startswith('dynamic'):
                    r = judge_scannerless(ctx, rg, names, is_red, lexer, s, w, out, case)
                else:
                    r = judge_token_level(ctx, rg, ref, names, is_red, parser, lexer, s, w, out, case, None)
                if r is None or r == 'member':
                    ctx.count('not-judged:%s' % ('reference-says-member' if r == 'member' else 'inconclusive'))
                    continue
                kind, problems, nontriv = r
                ctx.judged([text, parser, lexer, s, w], nontriv, feats + ['kind:' + kind])
                ctx.count('judged:%s/%s' % (parser, lexer))
                for mech, det, *fid in problems[:1]:
                    ctx.violation('%s:%s/%s' % (mech, parser, lexer), case, dict(det, lark=exc), fid[0] if fid else None)


def near_misses(rng, G, n_samples, n_random, maxlen=12):
    rg = RefGrammar(G)
    ex = gen.term_examples(rg, G)
    ins = set(gen.random_strings(rng, G['alphabet'], n_random, 5))
    for s in G.get('start') or ['start']:
        for _ in range(n_samples):
            sent = gen.sample_sentence(rg, rng, ex, start=s, depth=5)
            if sent is None:
                break
            sep = ' ' if (G.get('ignore') and rng.random() < 0.5) else ''
            w = sep.join(x for _, x in sent)
            if len(w) > maxlen:
                continue
            for _ in range(3):
                ins.add(gen.mutate(rng, w, G['alphabet']))
            for k in range(len(w)):
                ins.add(w[:k])
            if '\n' not in w and rng.random() < 0.3 and G.get('ignore'):
                ins.add(w + ' ' + rng.choice(G['alphabet']))
    return sorted(ins)


def ws_variant(G):
    """same grammar with a newline-capable %ignore, so that line/column are exercised"""
    G = dict(G)
    G['terms'] = list(G['terms']) + [gen.term('WSN', ['x', r'[ \n]', ''], ex=[' ', '\n'])]
    G['ignore'] = ['WSN']
    G['alphabet'] = list(G['alphabet']) + [' ', '\n']
    return G


CORPUS = [
    ('expr', {'rules': [gen.rule('start', [gen.alt([['r', 'start'], gen.LIT('+'), ['r', 't']]), gen.alt([['r', 't']])]),
                        gen.rule('t', [gen.alt([['t', 'N']]), gen.alt([gen.LIT('('), ['r', 'start'], gen.LIT(')')])])],
              'terms': [gen.term('N', ['x', '[0-9]', ''], ex=['7']), gen.term('WSN', ['x', r'[ \n]', ''], ex=[' ', '\n'])], 'ignore': ['WSN'], 'start': ['start'], 'alphabet': list('7+() \n')},
     ['7+', '7+\n+', '(7', '(7\n', '7 7', ')', '', '7+7)', '7\n+\n7\n)', '(\n(7+7)', '7+x', 'x', '7 x']),
    ('nullable-tail', {'rules': [gen.rule('start', [gen.alt([gen.LIT('a'), ['r', 'n'], gen.LIT('b')])]), gen.rule('n', [gen.alt([]), gen.alt([gen.LIT('c')])])],
                       'terms': [], 'ignore': [], 'start': ['start'], 'alphabet': list('abc')},
     ['a', 'ac', 'acc', 'ab b', 'abb', 'b', 'ca', '', 'aa']),
    ('dangling-else', {'rules': [gen.rule('start', [gen.alt([gen.LIT('i'), ['r', 'start']]), gen.alt([gen.LIT('i'), ['r', 'start'], gen.LIT('e'), ['r', 'start']]), gen.alt([gen.LIT('x')])])],
                       'terms': [], 'ignore': [], 'start': ['start'], 'alphabet': list('iex')},
     ['i', 'ix e', 'ixe', 'ixex e', 'ixexe', 'e', 'xx', 'iixexex', 'iixexexex']),
    ('reduce-before-error', {'rules': [gen.rule('start', [gen.alt([['r', 'a'], gen.LIT('x')]), gen.alt([['r', 'b'], gen.LIT('y')])]), gen.rule('a', [gen.alt([gen.LIT('c')])]),
                                       gen.rule('b', [gen.alt([gen.LIT('c'), gen.LIT('c')])])], 'terms': [], 'ignore': [], 'start': ['start'], 'alphabet': list('cxy')},
     ['c', 'cy', 'ccx', 'cc', 'ccc', 'cxx', 'x']),
    ('two-starts', {'rules': [gen.rule('start', [gen.alt([gen.LIT('a'), ['r', 'other']])]), gen.rule('other', [gen.alt([gen.LIT('b')]), gen.alt([gen.LIT('b'), ['r', 'other']])])],
                    'terms': [], 'ignore': [], 'start': ['start', 'other'], 'alphabet': list('ab')},
     ['a', 'b a', 'ba', 'ab a', 'aba', '', 'aa']),
    ('empty-language-tail', {'rules': [gen.rule('start', [gen.alt([gen.LIT('a'), ['r', 'u']]), gen.alt([gen.LIT('b')])]), gen.rule('u', [gen.alt([gen.LIT('c'), ['r', 'u']])])],
                             'terms': [], 'ignore': [], 'start': ['start'], 'alphabet': list('abc')},
     ['a', 'ac', 'acc', 'bb', 'c']),
    # keywords that a regexp terminal also matches: what the lexer reports as allowed must still name them
    ('keyword-inside-regexp', {'rules': [gen.rule('start', [gen.alt([['t', 'IF'], ['t', 'NAME'], ['t', 'THEN']])])],
                               'terms': [gen.term('IF', ['s', 'if', ''], ex=['if']), gen.term('THEN', ['s', 'then', ''], ex=['then']), gen.term('NAME', ['x', '[a-z]+', ''], ex=['x']),
                                         gen.term('WS', ['x', ' +', ''], ex=[' '])], 'ignore': ['WS'], 'start': ['start'], 'alphabet': list('ifthenx $')},
     ['$', 'if x $', 'if $', 'if x then $', 'if', 'if x', 'x', 'if if then']),
    # ignorable text inside a token: the scannerless parsers find an %ignore match at an offset where nothing is being
    # scanned, and one that reaches beyond the place where the sentence breaks off
    ('ignorable-text-inside-token', {'rules': [gen.rule('start', [gen.alt([['t', 'Q'], ['t', 'X']]), gen.alt([['t', 'Q'], ['t', 'Q'], ['t', 'B']])])],
                                     'terms': [gen.term('Q', ['x', 'c[^c]*c', ''], ex=['cc', 'c#c']), gen.term('X', ['x', 'x', ''], ex=['x']), gen.term('B', ['x', 'b', ''], ex=['b']),
                                               gen.term('CM', ['x', '#[^x]*', ''], ex=['#']), gen.term('WS', ['x', ' +', ''], ex=[' '])],
                                     'ignore': ['CM', 'WS'], 'start': ['start'], 'alphabet': list('cxb# a')},
     ['c#bc abab', 'c#bc ab', 'c#bcb', 'c#bcx', 'c#bc x', 'c bc  ab', 'c#c', 'cc #ab b', 'c#acc#bbcab', 'c c  c   ca', 'c#c #x#b']),
]


def end_after_empty_valued_token(ctx):
    """the last token before an unexpected end of input has an empty value (a callback stripped it, or it is the Indenter's
    closing DEDENT): $END must still carry its coordinates"""
    from lark import Lark
    g = 'start: A B C\nA: "a"\nB: "b"\nC: "c"\n%ignore " "\n'
    for lexer in ('basic', 'contextual'):
        l = Lark(g, parser='lalr', lexer=lexer, lexer_callbacks={'B': lambda t: t.update(value='')})
        for w, at in (('a b', 2), ('a  b ', 3), ('ab', 1)):
            out = call(ctx, 'parse', l.parse, w)
            ctx.judged([g, lexer, w, 'empty-valued-last-token'], True, ['kind:$END-after-empty-valued-token'])
            ctx.count('corpus:$END-after-empty-valued-token')
            tok = out[1].get('token') if out[0] == 'exc' else None
            if out[0] != 'exc' or out[1].get('token_type') != END or not isinstance(tok, list) or tok[3] != at:
                ctx.violation('$END-does-not-carry-the-coordinates-of-the-last-token:lalr/%s' % lexer, {'grammar_text': g, 'input': w, 'callback': 'B -> value ""', 'kind': 'empty-valued'},
                              {'expected_start_pos': at, 'lark': out})


def run_batch(ctx):
    rng = ctx.rng
    quick = ctx.tier == 'quick'
    if ctx.batch == 1:
        end_after_empty_valued_token(ctx)
    if ctx.batch == 0:
        for name, G, inputs in CORPUS:
            run_grammar(ctx, G, 'corpus:' + name, [w.replace(' ', '') if not G['ignore'] else w for w in inputs])
            ctx.count('corpus')
    for i in range(PER_BATCH[ctx.tier]):
        if not ctx.time_left():
            ctx.count('stopped-on-time-budget')
            break
        G = gen.lalr_friendly(rng, p_perturb=0.25)
        if i % 2:
            G = ws_variant(G)
        run_grammar(ctx, G, 'lalr-friendly', near_misses(rng, G, 6 if quick else 10, 6))
        G = gen.bnf_tiny(rng)
        if i % 3 == 0:
            G = ws_variant(G)
        run_grammar(ctx, G, 'bnf-tiny', gen.all_strings(G['alphabet'][:3], 4, cap=40, rng=rng) + (near_misses(rng, G, 3, 3) if G['ignore'] else []))
        G = dc_safe_regex_grammar(rng)
        run_grammar(ctx, G, 'regex', near_misses(rng, G, 6, 12, maxlen=8), [e for e in ENGINES if e[1].startswith('dynamic')])
        if i % 2 == 0:
            G = gen.ebnf(rng, profile='language')
            run_grammar(ctx, G, 'ebnf', near_misses(rng, G, 6, 6))


def replay(ctx, case):
    if case.get('kind') == 'empty-valued':
        end_after_empty_valued_token(ctx)
        return
    earlier = [w for s, w in case.get('earlier', []) if s == case.get('start', 'start')]
    run_grammar(ctx, case['grammar'], case.get('family', 'replay'), earlier + [case['input']], [tuple(case['engine'])])


def selftest(ctx):
    G = CORPUS[0][1]
    rg = RefGrammar(G)
    inp, _ = basic_tokens(rg, '7+)')
    ch = R.Chart(rg, inp)
    v = R.Viable(rg, inp, ch)
    assert v.longest_viable() == 2, v.reached
    assert {rg.terms[t].name or rg.terms[t].pat[1] for t in v.next_terms(2)} == {'N', '('}
    ci = R.CharInput(rg, '7 +\n)', 'pref', 'pref')
    v = R.Viable(rg, ci, R.Chart(rg, ci))
    assert max(v.live_chars()) == 4 and {rg.terms[t].name or rg.terms[t].pat[1] for t in v.allowed_at(4)} == {'N', '('}
    ctx.monitor('reference-selftest')

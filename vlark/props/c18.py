"""C18  the Indenter post-lexer emits CPython's INDENT/DEDENT structure."""
import io, tokenize
from ..core import STEPS, digest, canon_exc

USE_STEPS = False
NBATCH = {'quick': 16, 'thorough': 64}
BUDGET_S = {'quick': 80, 'thorough': 180}
PER_BATCH = {'quick': 360, 'thorough': 9000}
FLOORS = {
    'quick': {'distinct_nontrivial': 2500, 'python-texts-judged': 2500, 'token-streams-judged': 2500, 'feature:multi-level-dedent': 400,
              'feature:bracketed-newline': 1500, 'feature:tabs': 1200, 'feature:blank-or-comment-line': 2500, 'feature:DedentError': 600,
              'feature:>=3-levels': 1000, 'stream-sequences-judged': 1500, 'feature:after-failed-stream': 300, 'feature:after-abandoned-stream': 300,
              'class:no-final-newline-tail': 200, 'class:indented-first-line': 200, 'class:code-line-without-final-newline': 150, 'feature:generators-created-before-consumption': 600, 'contract:balanced-at-end': 5000,
              'feature:empty-valued-last-token-before-closing-dedents': 30},
    'thorough-unused': {'distinct_nontrivial': 50000, 'python-texts-judged': 100000},
}
RULE = ("(a) python-like texts (indent widths 1-12 in spaces and tabs, blank and comment lines at arbitrary indentation, bracketed "
        "continuation lines with arbitrary indentation, nested brackets, dedents to open and to non-open levels) lexed with "
        "lark's python grammar + PythonIndenter; oracle: the sequence of INDENT / DEDENT / logical-line events equals the one "
        "of CPython's tokenize on the same text with leading tabs rewritten to tab_len spaces, DedentError <=> CPython's "
        "'unindent does not match' IndentationError; (b) synthetic token streams fed straight into an Indenter subclass "
        "(tab_len 1-8, own bracket types) vs a stack model written from the statement; INDENT/DEDENT balanced at the end of "
        "every complete stream; (c) sequences of streams through ONE Indenter object: after a failed or abandoned stream the "
        "next stream's output equals a fresh Indenter's; non-trivial = >=2 nesting levels with a multi-level dedent or a "
        "bracketed newline; distinct by text / token stream")
ASSUMPTIONS = ["CPython's tokenize is the reference for nesting; leading whitespace is normalised (tab = tab_len spaces) before it is given to CPython, as the statement counts tabs",
               "only bracket-balanced streams (a negative bracket depth trips an assert in the Indenter, outside the statement)",
               "texts without final newline whose tail is blank/comment-only, and texts whose first logical line is indented, are separate input classes (finding F-C18-1)"]

_PY = [None]


def python_lexer():
    if _PY[0] is None:
        from lark import Lark
        from lark.indenter import PythonIndenter
        _PY[0] = Lark.open_from_package('lark', 'python.lark', ['grammars'], parser='lalr', postlex=PythonIndenter(), start='file_input')
    return _PY[0]


# ------------------------------------------------------------------ (a) python texts

def gen_python(rng, cls='main'):
    """-> (text, features).  Lines are built from a stack of indentation strings."""
    feats = set()
    lines = []
    stack = ['']           # indentation strings of open levels

    def width(s):
        return s.count(' ') + s.count('\t') * 8

    def ws(n):
        """indentation of width n, possibly with tabs"""
        if n >= 8 and rng.random() < 0.3:
            feats.add('tabs')
            t = n // 8
            return rng.choice(['\t' * t + ' ' * (n - 8 * t), ' ' * (n - 8 * t) + '\t' * t])
        return ' ' * n
    n = rng.randint(2, 12)
    opener = False
    for i in range(n):
        r = rng.random()
        if opener:
            # must indent
            w = width(stack[-1]) + rng.randint(1, 9)
            stack.append(ws(w))
        elif r < 0.25 and len(stack) > 1:
            # dedent to an open level (maybe several levels)
            k = rng.randint(2, len(stack) - 1) if (len(stack) > 2 and rng.random() < 0.6) else rng.randint(1, len(stack) - 1)
            if k >= 2:
                feats.add('multi-level-dedent')
            del stack[-k:]
        elif r < 0.32 and len(stack) > 1 and cls == 'main':
            # dedent to a column that is not an open level
            top, below = width(stack[-1]), width(stack[-2])
            if top - below >= 2:
                w = rng.randint(below + 1, top - 1)
                lines.append(' ' * w + 'pass')
                feats.add('dedent-to-non-open-level')
                break
        ind = stack[-1]
        if len(stack) >= 3:
            feats.add('>=3-levels')
        # noise before the statement
        while rng.random() < 0.25:
            feats.add('blank-or-comment-line')
            lines.append(rng.choice(['', ' ' * rng.randint(0, 14), ws(rng.choice([8, 16])) if rng.random() < 0.3 else '', ' ' * rng.randint(0, 14) + '# c']))
        kind = rng.random()
        opener = False
        if kind < 0.35 and i < n - 1:
            lines.append(ind + rng.choice(['if x:', 'while y:', 'def f():', 'for a in b:', 'class C:']))
            opener = True
        elif kind < 0.6:
            feats.add('bracketed-newline')
            inner = rng.choice(['(', '[', '{'])
            close = {'(': ')', '[': ']', '{': '}'}[inner]
            parts = ['x = ' + inner + '1,']
            for _ in range(rng.randint(1, 3)):
                parts.append(' ' * rng.randint(0, 16) + rng.choice(['2,', '[3, 33],', '{4: 44},', '# c', '', '(5), ', '[6,', '7],'][:6]))
            parts.append(' ' * rng.randint(0, 16) + close)
            lines.append(ind + parts[0])
            lines.extend(parts[1:])
        else:
            lines.append(ind + rng.choice(['pass', 'x = 1', 'f(a, b)', 'return', 'y = [1, 2]; z = 3']))
    if opener:
        lines.append(ws(width(stack[-1]) + 2) + 'pass')
    text = '\n'.join(lines) + '\n'
    if cls == 'no-final-newline-tail':
        text += rng.choice([' ' * rng.randint(1, 12), ' ' * rng.randint(0, 12) + '# tail', '\t'])
    elif cls == 'indented-first-line':
        text = ' ' * rng.randint(1, 6) + text.lstrip(' \t\n')
    elif cls == 'code-line-without-final-newline':
        # the text ends in a statement (not in a blank or comment-only line), with or without a trailing comment: the last
        # "newline" token of python.lark is then a bare comment, or there is none
        text = text[:-1] + rng.choice(['', '', ' # c', '# c', '  #'])
    return text, feats


def normalise(text):
    """leading tabs -> 8 spaces each (the statement counts a tab as tab_len columns)"""
    out = []
    for line in text.split('\n'):
        body = line.lstrip(' \t')
        lead = line[:len(line) - len(body)]
        out.append(' ' * (lead.count(' ') + lead.count('\t') * 8) + body)
    return '\n'.join(out)


def cpython_events(text):
    ev = []
    in_line = False
    try:
        for tok in tokenize.generate_tokens(io.StringIO(normalise(text)).readline):
            t = tok.type
            if t == tokenize.INDENT:
                ev.append('I')
                in_line = False
            elif t == tokenize.DEDENT:
                ev.append('D')
                in_line = False
            elif t in (tokenize.NEWLINE,):
                in_line = False
            elif t in (tokenize.NL, tokenize.COMMENT, tokenize.ENDMARKER):
                pass
            else:
                if not in_line:
                    ev.append('L')
                    in_line = True
    except IndentationError as e:
        return ev, 'IndentationError' if 'unindent' in str(e) else 'Other:' + str(e)[:60]
    except tokenize.TokenError as e:
        return ev, 'TokenError'
    return ev, None


def lark_events(text):
    ev = []
    in_line = False
    try:
        for t in python_lexer().lex(text):
            if t.type == '_INDENT':
                ev.append('I')
                in_line = False
            elif t.type == '_DEDENT':
                ev.append('D')
                in_line = False
            elif t.type == '_NEWLINE':
                in_line = False
            else:
                if not in_line:
                    ev.append('L')
                    in_line = True
    except Exception as e:
        return ev, type(e).__name__
    return ev, None


def classify_f_c18(text, le, lerr, ce, cerr):
    """finding F-C18-1.  (a) the text does not end with a newline and its tail is blank / comment-only: lark measures the
    tail as the indentation of one more logical line, so the streams may differ by INDENT/DEDENT events (or a
    DedentError) at the very end only.  (b) the first logical line is indented: lark ignores that indentation, i.e. it
    behaves exactly as CPython does on the text with the first logical line moved to column 0."""
    tail = text.rsplit('\n', 1)[-1]
    if tail and (not tail.strip(' \t') or tail.strip(' \t').startswith('#')):
        def core(ev):
            ev = list(ev)
            while ev and ev[-1] in 'ID':
                ev.pop()
            return ev
        if cerr is None and lerr in (None, 'DedentError') and core(le) == core(ce):
            return 'F-C18-1'
    lines = text.split('\n')
    for i, l in enumerate(lines):
        b = l.strip(' \t')
        if b and not b.startswith('#'):
            if l[:1] in (' ', '\t'):
                text2 = '\n'.join(lines[:i] + [l.lstrip(' \t')] + lines[i + 1:])
                ce2, cerr2 = cpython_events(text2)
                if (lerr == 'DedentError') == (cerr2 == 'IndentationError') and (le == ce2 or (lerr and le[:len(ce2)] == ce2[:len(le)])):
                    return 'F-C18-1'
            break
    return None


F_CLASSES = ('no-final-newline-tail', 'indented-first-line')      # the two input classes of finding F-C18-1


def judge_python(ctx, text, feats, cls):
    le, lerr = lark_events(text)
    ce, cerr = cpython_events(text)
    nt = ('>=3-levels' in feats or len([e for e in ce if e == 'I']) >= 2) and bool(feats & {'multi-level-dedent', 'bracketed-newline'})
    if cerr == 'IndentationError':
        feats = feats | {'DedentError'}
    ctx.judged(['py', text], nt, sorted(feats) + ['class:' + cls] if cls != 'main' else sorted(feats))
    ctx.count('python-texts-judged')
    if cls != 'main':
        ctx.count('class:' + cls)
    case = {'kind': 'python', 'text': text, 'cls': cls}
    if cerr and cerr not in ('IndentationError',):
        ctx.count('cpython-rejects-for-other-reason(not judged)')
        return
    if (lerr == 'DedentError') != (cerr == 'IndentationError'):
        ctx.violation('DedentError-differs-from-CPython-IndentationError', case, {'lark': [le, lerr], 'cpython': [ce, cerr]}, classify_f_c18(text, le, lerr, ce, cerr) if cls in F_CLASSES else None)
        return
    if lerr and lerr != 'DedentError':
        ctx.violation('indenter-stream-raises-other-exception', case, {'lark': [le, lerr]})
        return
    if lerr:
        # both reject: the events before the error must agree
        if le[:len(ce)] != ce[:len(le)]:
            ctx.violation('events-before-the-dedent-error-differ', case, {'lark': le, 'cpython': ce})
        return
    if le.count('I') != le.count('D'):
        ctx.violation('INDENT/DEDENT-not-balanced-at-end-of-stream', case, {'lark': le})
        return
    ctx.count('contract:balanced-at-end')
    if le != ce:
        ctx.violation('INDENT/DEDENT-structure-differs-from-CPython', case, {'lark': ''.join(le), 'cpython': ''.join(ce)},
                      classify_f_c18(text, le, lerr, ce, cerr) if cls in F_CLASSES else None)


# ------------------------------------------------------------------ (b) synthetic token streams vs stack model

def make_indenter(tab_len):
    from lark.indenter import Indenter

    return type('I', (Indenter,), dict(NL_type='NL', OPEN_PAREN_types=['OPEN', 'OPEN2'], CLOSE_PAREN_types=['CLOSE', 'CLOSE2'],
                                       INDENT_type='IND', DEDENT_type='DED', tab_len=tab_len))()


def gen_stream(rng):
    """-> list of (type, value); bracket balanced"""
    out = []
    depth = 0
    levels = [0]
    for _ in range(rng.randint(0, 25)):
        r = rng.random()
        if r < 0.4:
            # "any token stream": values rewritten by lexer callbacks can be empty or look like something else
            out.append(('WORD', rng.choice(['w', 'w', 'w', 'w', '', '', '\n  ', '('])))
        elif r < 0.75:
            # newline token: several newlines, indentation of the last line counts
            if rng.random() < 0.6 and depth == 0:
                # structured choice: same / deeper / back to an open level
                c = rng.random()
                if c < 0.35:
                    w = levels[-1]
                elif c < 0.65:
                    w = levels[-1] + rng.randint(1, 6)
                    levels.append(w)
                else:
                    k = rng.randrange(len(levels))
                    w = levels[k]
                    del levels[k + 1:]
                ind = ' ' * w
            else:
                ind = ''.join(rng.choice([' ', ' ', '\t']) for _ in range(rng.randint(0, 6)))
            out.append(('NL', rng.choice(['\n', '\n\n', '\r\n', '\n   \n', '\n\t\n']) + ind))
        elif r < 0.88:
            out.append((rng.choice(['OPEN', 'OPEN2']), '('))
            depth += 1
        elif depth > 0:
            out.append((rng.choice(['CLOSE', 'CLOSE2']), ')'))
            depth -= 1
    out.extend([('CLOSE', ')')] * depth)
    return out


def model(stream, tab_len):
    """stack model written from the statement -> (events, error)"""
    out = []
    depth = 0
    levels = [0]
    for typ, val in stream:
        if typ == 'NL':
            if depth == 0:
                out.append(('NL', val))
                s = val.rsplit('\n', 1)[1]
                w = s.count(' ') + s.count('\t') * tab_len
                if w > levels[-1]:
                    levels.append(w)
                    out.append(('IND', s))
                else:
                    while w < levels[-1]:
                        levels.pop()
                        out.append(('DED', s))
                    if w != levels[-1]:
                        return out, 'DedentError'
        else:
            out.append((typ, val))
            if typ.startswith('OPEN'):
                depth += 1
            elif typ.startswith('CLOSE'):
                depth -= 1
    while len(levels) > 1:
        levels.pop()
        out.append(('DED', ''))
    return out, None


KEEP = []


def run_stream(ind, stream, take=None):
    from lark import Token
    out = []
    try:
        g = ind.process(iter([Token(a, b) for a, b in stream]))
        for i, t in enumerate(g):
            if take is not None and i >= take:
                KEEP.append(g)          # abandoned and still referenced
                return out, 'abandoned'
            out.append((t.type, str(t)))
    except Exception as e:
        return out, type(e).__name__
    return out, None


def judge_stream(ctx, rng):
    tab_len = rng.choice([1, 2, 4, 8, 8])
    stream = gen_stream(rng)
    ind = make_indenter(tab_len)
    got = run_stream(ind, stream)
    exp = model(stream, tab_len)
    n_ind = sum(1 for t, _ in exp[0] if t == 'IND')
    feats = []
    if any(t.startswith('OPEN') for t, _ in stream) and any(t == 'NL' for t, _ in stream):
        feats.append('bracketed-newline')
    if any('\t' in v for t, v in stream if t == 'NL'):
        feats.append('tabs')
    if exp[1]:
        feats.append('DedentError')
    if stream and stream[-1][1] == '' and not exp[1] and exp[0] and exp[0][-1][0] == 'DED':
        feats.append('empty-valued-last-token-before-closing-dedents')
    ctx.judged(['stream', tab_len, stream], n_ind >= 2, feats)
    ctx.count('token-streams-judged')
    case = {'kind': 'stream', 'tab_len': tab_len, 'stream': stream}
    if got != exp and not (got[1] == exp[1] == 'DedentError' and got[0] == exp[0]):
        ctx.violation('indenter-output-differs-from-stack-model', case, {'indenter': got, 'model': exp})
        return
    if not exp[1]:
        if sum(1 for t, _ in got[0] if t == 'IND') != sum(1 for t, _ in got[0] if t == 'DED'):
            ctx.violation('INDENT/DEDENT-not-balanced-at-end-of-stream', case, {'indenter': got})
        else:
            ctx.count('contract:balanced-at-end')


def judge_created_first(ctx, rng):
    """process() is called for several streams before any of them is consumed; they are then consumed one after the other.
    Each must come out as from a fresh Indenter (the per-stream state must not be set up when process() is called and
    used later, when the generator runs)"""
    from lark import Token
    tab_len = rng.choice([2, 8])
    ind = make_indenter(tab_len)
    streams = [gen_stream(rng) for _ in range(rng.randint(2, 3))]
    gens = [ind.process(iter([Token(a, b) for a, b in st])) for st in streams]
    for k, (st, g) in enumerate(zip(streams, gens)):
        out = []
        try:
            for t in g:
                out.append((t.type, str(t)))
            got = (out, None)
        except Exception as e:
            got = (out, type(e).__name__)
        exp = run_stream(make_indenter(tab_len), st)
        ctx.judged(['created-first', tab_len, k, streams], k > 0, ['generators-created-before-consumption'])
        ctx.count('stream-sequences-judged')
        if got != exp:
            ctx.violation('stream-output-depends-on-when-process()-was-called', {'kind': 'created-first', 'tab_len': tab_len, 'streams': streams, 'index': k},
                          {'reused_indenter': got, 'fresh_indenter': exp})
            return


def judge_sequence(ctx, rng):
    """several streams through one Indenter object"""
    tab_len = rng.choice([2, 8])
    ind = make_indenter(tab_len)
    del KEEP[:]
    prev = []
    for k in range(rng.randint(2, 5)):
        stream = gen_stream(rng)
        take = rng.choice([None, None, rng.randint(0, 6)])
        got = run_stream(ind, stream, take)
        exp = run_stream(make_indenter(tab_len), stream, take)
        feats = []
        if any(p == 'DedentError' for p in prev):
            feats.append('after-failed-stream')
        if any(p == 'abandoned' for p in prev):
            feats.append('after-abandoned-stream')
        ctx.judged(['seq', tab_len, k, stream, take, prev], bool(feats), feats)
        ctx.count('stream-sequences-judged')
        if got != exp:
            ctx.violation('stream-output-depends-on-earlier-streams', {'kind': 'sequence', 'tab_len': tab_len, 'stream': stream, 'take': take, 'earlier': prev},
                          {'reused_indenter': got, 'fresh_indenter': exp})
            return
        prev.append(got[1] or 'ok')


def run_batch(ctx):
    rng = ctx.rng
    for i in range(PER_BATCH[ctx.tier]):
        if not ctx.time_left():
            ctx.count('stopped-on-time-budget')
            break
        cls = 'main'
        if i % 12 == 2:
            cls = 'code-line-without-final-newline'
        elif i % 12 == 5:
            cls = 'no-final-newline-tail'
        elif i % 12 == 9:
            cls = 'indented-first-line'
        text, feats = gen_python(rng, cls)
        judge_python(ctx, text, feats, cls)
        judge_stream(ctx, rng)
        if i % 3 == 0:
            judge_sequence(ctx, rng)
        if i % 5 == 1:
            judge_created_first(ctx, rng)
        if i % 100 == 0:
            ctx.sample({'python_text': text, 'class': cls, 'events': ''.join(lark_events(text)[0])})
    ctx.sample({'token_stream': gen_stream(rng)})


def replay(ctx, case):
    if case['kind'] == 'python':
        judge_python(ctx, case['text'], set(), case.get('cls', 'main'))
    elif case['kind'] == 'stream':
        tab_len, stream = case['tab_len'], [tuple(x) for x in case['stream']]
        got = run_stream(make_indenter(tab_len), stream)
        exp = model(stream, tab_len)
        ctx.judged(['stream', tab_len, stream], True, [])
        if got != exp and not (got[1] == exp[1] == 'DedentError' and got[0] == exp[0]):
            ctx.violation('indenter-output-differs-from-stack-model', case, {'indenter': got, 'model': exp})
    elif case['kind'] == 'created-first':
        for _ in range(3000):
            judge_created_first(ctx, ctx.rng)
    else:
        for _ in range(3000):
            judge_sequence(ctx, ctx.rng)

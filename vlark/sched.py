"""Seeded thread scheduler (yield injection) on sys.monitoring LINE events.

Exactly one worker thread runs at any time; every statement-start line of an instrumented code
object is a scheduling point at which a seeded PRNG may hand the (single) run token to another
thread.  The interleaving is therefore a function of (seed, switch probability, code) and can be
replayed in a fresh process.  Points are statement boundaries of lark code that holds no lock, so
no interleaving is manufactured that real threads could not have.
"""
import sys, threading, random, time, types

TOOL = sys.monitoring.DEBUGGER_ID


class Deadlock(Exception):
    pass


def code_objects_of(obj, seen=None):
    """all code objects of a function / class / module (nested functions and lambdas included)"""
    seen = seen if seen is not None else set()
    out = []

    def add_code(c):
        if c in seen:
            return
        seen.add(c)
        out.append(c)
        for k in c.co_consts:
            if isinstance(k, types.CodeType):
                add_code(k)
    if isinstance(obj, types.CodeType):
        add_code(obj)
    elif isinstance(obj, (types.FunctionType, types.MethodType)):
        add_code(obj.__code__)
    elif isinstance(obj, property):
        for f in (obj.fget, obj.fset, obj.fdel):
            if f is not None:
                add_code(f.__code__)
    elif isinstance(obj, (staticmethod, classmethod)):
        out += code_objects_of(obj.__func__, seen)
    elif isinstance(obj, type):
        for v in vars(obj).values():
            if isinstance(v, (types.FunctionType, property, staticmethod, classmethod)):
                out += code_objects_of(v, seen)
    elif isinstance(obj, types.ModuleType):
        for v in vars(obj).values():
            if isinstance(v, types.FunctionType) and v.__module__ == obj.__name__:
                out += code_objects_of(v, seen)
            elif isinstance(v, type) and v.__module__ == obj.__name__:
                out += code_objects_of(v, seen)
    return out


class Scheduler:
    def __init__(self, codes, watch=(), wait_s=30.0):
        """codes: code objects whose lines are scheduling points; watch: subset regarded as
        shared-state windows (for the overlap statistics)"""
        self.codes = list(dict.fromkeys(codes))
        self.watch = set(watch)
        self.wait_s = wait_s
        self.installed = False
        self.active = False

    def install(self):
        if self.installed:
            return
        mon = sys.monitoring
        try:
            mon.use_tool_id(TOOL, 'vlark-sched')
        except ValueError:
            pass
        mon.register_callback(TOOL, mon.events.LINE, self._on_line)
        mon.register_callback(TOOL, mon.events.PY_RETURN, self._on_exit)
        ev = mon.events.LINE | mon.events.PY_RETURN
        for c in self.codes:
            mon.set_local_events(TOOL, c, ev)
        self.installed = True

    def uninstall(self):
        if not self.installed:
            return
        mon = sys.monitoring
        for c in self.codes:
            mon.set_local_events(TOOL, c, 0)
        mon.register_callback(TOOL, mon.events.LINE, None)
        mon.register_callback(TOOL, mon.events.PY_RETURN, None)
        mon.free_tool_id(TOOL)
        self.installed = False

    # ------------------------------------------------------------------ one schedule
    def run(self, fns, seed, p_switch=0.25, max_points=200000):
        """run the callables in fns in one thread each under a seeded schedule.
        -> dict(results=[('ok', value) | ('exc', exception)], trace_digest, points, switches, overlaps)"""
        n = len(fns)
        self.rng = random.Random(seed)
        self.p = p_switch
        self.sems = [threading.Semaphore(0) for _ in range(n)]
        self.done = [False] * n
        self.idx = {}
        self.inside = [None] * n
        self.points = 0
        self.switches = 0
        self.overlaps = 0
        self.max_points = max_points
        self.trace = []
        self.deadlock = False
        results = [None] * n

        def body(i):
            self.idx[threading.get_ident()] = i
            self._park(i)
            try:
                results[i] = ('ok', fns[i]())
            except BaseException as e:        # noqa: the exception *is* the observation
                results[i] = ('exc', e)
            finally:
                self.done[i] = True
                self.inside[i] = None
                self._handoff(i, finished=True)
        threads = [threading.Thread(target=body, args=(i,), daemon=True) for i in range(n)]
        self.active = True
        try:
            for t in threads:
                t.start()
            # wait until every thread registered itself, then release the first one
            t0 = time.time()
            while len(self.idx) < n and time.time() - t0 < self.wait_s:
                time.sleep(0.0005)
            first = self.rng.randrange(n)
            self.trace.append(first)
            self.sems[first].release()
            for t in threads:
                t.join(self.wait_s * 2)
            if any(t.is_alive() for t in threads):
                self.deadlock = True
        finally:
            self.active = False
            if self.deadlock:
                for s in self.sems:          # let stragglers run out freely
                    for _ in range(1000):
                        s.release()
        if self.deadlock:
            raise Deadlock()
        import hashlib
        return {'results': results, 'trace_digest': hashlib.sha1(repr(self.trace).encode()).hexdigest()[:12],
                'points': self.points, 'switches': self.switches, 'overlaps': self.overlaps}

    def _park(self, i):
        if not self.sems[i].acquire(timeout=self.wait_s):
            self.deadlock = True
            raise Deadlock()

    def _handoff(self, i, finished=False):
        """give the run token to another runnable thread (finished: i will not run again)"""
        cand = [j for j in range(len(self.done)) if not self.done[j] and j != i]
        if not cand:
            return False
        j = self.rng.choice(cand)
        self.trace.append(j)
        self.switches += 1
        self.sems[j].release()
        return True

    def _on_line(self, code, line):
        if not self.active:
            return
        i = self.idx.get(threading.get_ident())
        if i is None or self.done[i]:
            return
        self.points += 1
        if code in self.watch:
            self.inside[i] = code
            if any(self.inside[j] is not None and not self.done[j] for j in range(len(self.inside)) if j != i):
                self.overlaps += 1
        if self.points > self.max_points or self.deadlock:
            return
        if self.rng.random() < self.p:
            self.trace.append((code.co_name, line))
            if self._handoff(i):
                self._park(i)

    def _on_exit(self, code, *a):
        if not self.active:
            return
        i = self.idx.get(threading.get_ident())
        if i is not None and self.inside[i] is code:
            self.inside[i] = None

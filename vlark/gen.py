"""Seeded workload generators (G1 grammars, G2 terminals, G3 inputs).  Everything is plain data."""
import itertools
from .gram import RefGrammar, print_grammar

LIT = lambda s, f='': ['s', s, f]


def alt(items, alias=None):
    return {'items': list(items), 'alias': alias}


def rule(name, alts, mods='', prio=None, params=None):
    return {'name': name, 'mods': mods, 'prio': prio, 'params': params or [], 'alts': alts}


def term(name, pat, prio=None, ex=None):
    return {'name': name, 'prio': prio, 'pat': pat, 'ex': ex or ([pat[1]] if pat[0] == 's' else [])}


# ------------------------------------------------------------------ bnf-tiny

def bnf_tiny(rng, max_nts=4, max_ts=3, prios=False, p_empty=None):
    """plain BNF over single-character anonymous string terminals; frequently left/right/hidden
    recursive, nullable, ambiguous and cyclic (symbols are drawn uniformly, incl. the rule itself)"""
    nts = ['start'] + ['r%d' % i for i in range(rng.randint(0, max_nts - 1))]
    ts = ['a', 'b', 'c'][:rng.randint(1, max_ts)]
    rules = []
    lens = [0, 1, 1, 2, 2, 3] if p_empty is None else ([0] * p_empty + [1, 1, 2, 2, 3])
    for nt in nts:
        alts = []
        for _ in range(rng.randint(1, 3)):
            n = rng.choice(lens)
            a = tuple(rng.choice(nts + ts + ts) for _ in range(n))
            if a not in alts:
                alts.append(a)
        pr = rng.choice([None, None, -2, -1, 0, 1, 2, 3]) if prios else None
        rules.append(rule(nt, [alt([['r', s] if s in nts else LIT(s) for s in a]) for a in alts], prio=pr))
    return {'rules': rules, 'terms': [], 'ignore': [], 'start': ['start'], 'alphabet': ts}


def shaped_bnf(rng):
    """hand-shaped recursion patterns mixed into bnf-tiny so that every anchored mechanism is hit
    for every seed"""
    k = rng.randrange(8)
    a, b = LIT('a'), LIT('b')
    S = lambda *alts: rule('start', [alt(x) for x in alts])
    R = lambda n, *alts: rule(n, [alt(x) for x in alts])
    r = ['r', 'start']
    if k == 0:    # left recursion
        rules = [S([r, a], [a])]
    elif k == 1:  # right recursion + nullable
        rules = [S([a, r], [])]
    elif k == 2:  # hidden left recursion
        rules = [S([['r', 'n'], r, a], [b]), R('n', [], [a])]
    elif k == 3:  # unit cycle
        rules = [S([['r', 'x']], [a]), R('x', [r], [b])]
    elif k == 4:  # nullable chain, nullable completion inside
        rules = [S([['r', 'n'], ['r', 'n'], a, ['r', 'n']]), R('n', [['r', 'm']], [b]), R('m', [])]
    elif k == 5:  # E: E E | a  (exponential ambiguity)
        rules = [S([r, r], [a], [b])]
    elif k == 6:  # self-cycle through nullable context
        rules = [S([['r', 'n'], r, ['r', 'n']], [a]), R('n', [], [b])]
    else:         # middle recursion
        rules = [S([a, r, b], [a, b], [])]
    return {'rules': rules, 'terms': [], 'ignore': [], 'start': ['start'], 'alphabet': ['a', 'b']}


# ------------------------------------------------------------------ regex terminals (scannerless)

REGEX_TERMS = {
    'A': (r'a+', ['a', 'aa']), 'B': (r'b', ['b']), 'AB': (r'ab', ['ab']), 'C': (r'[ab]c?', ['a', 'bc']),
    'W': (r'[ab]+', ['ab', 'ba', 'a']), 'X': (r'x', ['x']), 'S': (r' x', [' x']),
    'Y': (r'(?:ab)+', ['ab', 'abab']), 'Z': (r'a?b', ['b', 'ab']),
    # terminals that can swallow the ignorable blank on either side (the ignored text is then absorbable by the symbol
    # before it, by the one after it, or by neither)
    'AS': (r'a ?', ['a', 'a ']), 'SX': (r' ?x', ['x', ' x']),
    # match lengths with a gap (on "aaba": 4, 2, 1 - never 3)
    'G': (r'a+(?:ba+)?', ['a', 'aba', 'aaba']),
    # a quoted string: ignorable text (blanks, a comment start) can lie inside the token, where nothing is being scanned
    'Q': (r'c[^c]*c', ['cc', 'c#c', 'c ac']),
}
PREF_SENSITIVE = {'D': (r'a|ab', ['a', 'ab']), 'L': (r'a+?', ['a', 'aa'])}   # class (c): preferred != longest
IGNORES = {'WS': (r' +', [' ', '  ']), 'CM': (r'#[^x]*', ['#', '# a']), 'WS1': (r'\s', [' '])}


def regex_grammar(rng, pref_sensitive=False):
    pool = dict(REGEX_TERMS)
    if pref_sensitive:
        pool.update(PREF_SENSITIVE)
    nts = ['start'] + ['r%d' % i for i in range(rng.randint(0, 2))]
    ts = rng.sample(sorted(pool), rng.randint(1, 3))
    if pref_sensitive and not set(ts) & set(PREF_SENSITIVE):
        ts[0] = rng.choice(sorted(PREF_SENSITIVE))
    rules = []
    for nt in nts:
        alts = []
        for _ in range(rng.randint(1, 3)):
            n = rng.choice([0, 1, 1, 2, 2, 3])
            a = tuple(rng.choice(nts + ts + ts) for _ in range(n))
            if a not in alts:
                alts.append(a)
        rules.append(rule(nt, [alt([['r', s] if s in nts else ['t', s] for s in a]) for a in alts]))
    terms = [term(t, ['x', pool[t][0], ''], ex=pool[t][1]) for t in ts]
    ign = rng.choice(sorted(IGNORES) + [None])
    ignore = []
    if ign:
        if ign == 'CM' and rng.random() < 0.5:
            # a second, shorter %ignore that matches where the comment starts, declared first
            terms.append(term('H', ['x', '#', ''], ex=['#']))
            ignore.append('H')
        terms.append(term(ign, ['x', IGNORES[ign][0], ''], ex=IGNORES[ign][1]))
        ignore.append(ign)
        if ign == 'WS' and rng.random() < 0.3:
            terms.append(term('CM', ['x', IGNORES['CM'][0], ''], ex=IGNORES['CM'][1]))
            ignore.append('CM')
    return {'rules': rules, 'terms': terms, 'ignore': ignore, 'start': ['start'], 'alphabet': list('abcx #')}


# ------------------------------------------------------------------ inputs

def all_strings(alphabet, maxlen, cap=None, rng=None):
    out = [''.join(p) for L in range(maxlen + 1) for p in itertools.product(alphabet, repeat=L)]
    if cap and len(out) > cap:
        keep = out[:1 + len(alphabet)]
        rest = out[1 + len(alphabet):]
        out = keep + rng.sample(rest, cap - len(keep))
    return out


def random_strings(rng, alphabet, n, maxlen):
    s = set()
    for _ in range(n * 3):
        s.add(''.join(rng.choice(alphabet) for _ in range(rng.randint(0, maxlen))))
        if len(s) >= n:
            break
    return sorted(s)


def min_heights(rg):
    INF = 10 ** 9
    h = {n: INF for n in rg.nts}
    ch = True
    while ch:
        ch = False
        for p in rg.productions():
            v = 1 + max([h[s[1]] for s in p.rhs if s[0] == 'N'] + [0])
            if v < h[p.lhs]:
                h[p.lhs] = v
                ch = True
    return h


def sample_sentence(rg, rng, examples, start='start', depth=6, sep=''):
    """random derivation -> list of (tid, text) leaves; None if start is unproductive.
    examples: tid -> list of example strings"""
    h = min_heights(rg)
    if h[start] >= 10 ** 9:
        return None
    out = []

    def walk(name, d):
        prods = [p for p in rg.nts[name].prods if all(s[0] == 'T' or h[s[1]] < 10 ** 9 for s in p.rhs)]
        if d <= 0:
            m = min(1 + max([h[s[1]] for s in p.rhs if s[0] == 'N'] + [0]) for p in prods)
            prods = [p for p in prods if 1 + max([h[s[1]] for s in p.rhs if s[0] == 'N'] + [0]) == m]
        p = rng.choice(prods)
        for s in p.rhs:
            if s[0] == 'T':
                out.append((s[1], rng.choice(examples[s[1]])))
            else:
                walk(s[1], d - 1)
    walk(start, depth)
    return out


def term_examples(rg, G):
    """tid -> example strings (from the AST's 'ex' lists; anonymous string literals are their own
    example)"""
    ex = {}
    by_name = {t['name']: t for t in G.get('terms', [])}
    for tid, T in rg.terms.items():
        if T.named and by_name[T.name].get('ex'):
            ex[tid] = list(by_name[T.name]['ex'])
        elif T.pat[0] == 's':
            ex[tid] = [T.pat[1]]
        else:
            ex[tid] = list(ANON_RE_EXAMPLES.get(T.pat[1], []))
    return ex


ANON_RE_EXAMPLES = {r'[0-9]': ['7'], r'x+': ['x', 'xx'], r'[xy]': ['x', 'y']}


def mutate(rng, s, alphabet):
    """near misses: delete / insert / substitute / swap / truncate"""
    k = rng.randrange(5)
    if not s:
        return rng.choice(alphabet)
    i = rng.randrange(len(s))
    if k == 0:
        return s[:i] + s[i + 1:]
    if k == 1:
        return s[:i] + rng.choice(alphabet) + s[i:]
    if k == 2:
        return s[:i] + rng.choice(alphabet) + s[i + 1:]
    if k == 3 and len(s) > 1:
        i = rng.randrange(len(s) - 1)
        return s[:i] + s[i + 1] + s[i] + s[i + 2:]
    return s[:i]


# ------------------------------------------------------------------ ebnf profiles

EBNF_TERMS = [  # collision-free on purpose (distinct first characters, no shared characters)
    ('A', ['s', 'a', ''], ['a']), ('B', ['s', 'b', ''], ['b']), ('C', ['s', 'c', ''], ['c']),
    ('_U', ['s', 'u', ''], ['u']), ('X', ['x', 'x+', ''], ['x', 'xx']), ('N', ['x', '[0-9]', ''], ['7']),
    ('_V', ['x', 'v', ''], ['v']), ('K', ['s', 'k', 'i'], ['k', 'K']),
    # named like the canonical names lark gives to the anonymous literals "+" and "," - but with another pattern: the
    # literal must stay the literal
    ('PLUS', ['s', 'p', ''], ['p']), ('COMMA', ['x', 'q', ''], ['q']),
]
EBNF_LITS = ['+', ',', 'a', 'z', '(', ')']


def ebnf(rng, *a, **kw):
    """random EBNF grammar using every shaping feature: ? ! _ aliases [..] ? * + ~n..m groups templates.
    Grammars whose rules multiply out to more than 300 BNF alternatives are drawn again (their construction is
    merely expensive, which would blur the step budget that stands for termination)."""
    from .gram import expansion_estimate
    while True:
        G = _ebnf(rng, *a, **kw)
        if expansion_estimate(G) <= 300:
            return G


def _ebnf(rng, profile='shaping', n_rules=None, p_rec=0.15, allow_templates=True, p_ignore=0.3,
          allow_prio=False, mods_pool=('', '', '', '?', '?', '!', '?!'), max_rep=3, placeholders_only_simple=True):
    nterm = rng.randint(2, 4)
    tpool = rng.sample(EBNF_TERMS, nterm)
    tnames = [t[0] for t in tpool]
    lits = rng.sample(EBNF_LITS, rng.randint(0, 2))
    term_chars = set(''.join(e for t in tpool for e in t[2]))
    lits = [l for l in lits if l not in term_chars or ('A' in tnames and l == 'a')]
    n_rules = n_rules or rng.randint(1, 4)
    names = ['start']
    for i in range(n_rules - 1):
        names.append(rng.choice(['r%d', 'r%d', '_i%d']) % i)
    templates = []
    if allow_templates and rng.random() < 0.25:
        templates.append('tm0')
        if rng.random() < 0.4:
            templates.append('tm1')        # two parameters, may use tm0 inside
    aliases = itertools.count()

    def atom(idx, depth):
        r = rng.random()
        if r < 0.5 or depth > 2:
            if lits and rng.random() < 0.3:
                return LIT(rng.choice(lits))
            return ['t', rng.choice(tnames)]
        if r < 0.75:
            later = names[idx + 1:]
            if later and rng.random() > p_rec:
                return ['r', rng.choice(later)]
            if rng.random() < p_rec * 2:
                return ['r', rng.choice(names)]
            return ['t', rng.choice(tnames)]
        if r < 0.80 and templates:
            def targ():
                return ['t', rng.choice(tnames)] if rng.random() < 0.6 or not names[idx + 1:] else ['r', rng.choice(names[idx + 1:])]
            t = rng.choice(templates)
            return ['c', t, [targ()] if t == 'tm0' else [targ(), targ()]]
        if r < 0.87:
            return ['g', [alt(seq(idx, depth + 1, 1, 2)) for _ in range(rng.randint(1, 2))]]
        if r < 0.94:
            return ['m', [alt(seq(idx, depth + 1, 1, 2, in_maybe=True)) for _ in range(rng.randint(1, 2))]]
        op = rng.choice('?*+~~')
        inner = atom(idx, depth + 1)
        if inner[0] == 'q' or inner[0] == 'm':
            inner = ['g', [alt([inner])]]
        if op == '~':
            lo = rng.randint(0, max_rep)
            hi = rng.choice([lo, lo + rng.randint(0, 2)])
            if hi == 0:
                hi = 1
            return ['q', inner, '~', lo, hi]
        return ['q', inner, op, 0, 0]

    def seq(idx, depth, lo, hi, in_maybe=False):
        items = []
        for _ in range(rng.randint(lo, hi)):
            it = atom(idx, depth)
            if in_maybe and placeholders_only_simple and it[0] == 'q' and it[2] != '?':
                it = it[1]
            items.append(it)
        return items

    rules = []
    for idx, nm in enumerate(names):
        mods = rng.choice(['', '', '!']) if nm.startswith('_') else rng.choice(mods_pool)
        alts = []
        for _ in range(rng.randint(1, 3)):
            items = seq(idx, 0, 0 if rng.random() < 0.12 else 1, 3)
            al = None
            if not nm.startswith('_') and rng.random() < 0.25:
                al = 'al%d' % next(aliases)
            if not any(a['items'] == items for a in alts):
                alts.append(alt(items, al))
        pr = rng.choice([None, None, -1, 1, 2]) if allow_prio else None
        rules.append(rule(nm, alts, mods=mods, prio=pr))
    for t in templates:
        if t == 'tm1':
            body = rng.choice([
                [alt([['p', 'x'], LIT(','), ['p', 'y']])],
                [alt([['p', 'x'], ['q', ['p', 'y'], '*', 0, 0]])],
                [alt([['c', 'tm0', [['p', 'y']]], ['p', 'x']]), alt([LIT('z'), ['p', 'x']], 'tz1')],
            ])
            rules.append(rule(t, body, mods=rng.choice(['', '', '?', '!']), params=['x', 'y']))
            continue
        body = rng.choice([
            [alt([LIT('('), ['p', 'x'], LIT(')')])],
            [alt([['p', 'x'], ['q', ['g', [alt([LIT(','), ['p', 'x']])]], '*', 0, 0]])],
            [alt([['p', 'x'], ['p', 'x']]), alt([LIT('z')], 'tz')],
        ])
        rules.append(rule(t, body, mods=rng.choice(['', '', '?', '!']), params=['x']))
    terms = [term(n, p, ex=e) for n, p, e in tpool]
    ignore = []
    if rng.random() < p_ignore:
        terms.append(term('WS', ['x', ' +', ''], ex=[' ', '  ']))
        ignore = ['WS']
    alphabet = sorted(set(''.join(e for t in tpool for e in t[2]) + ''.join(lits) + ('(),z' if templates else '') + (' ' if ignore else '')))
    return {'rules': rules, 'terms': terms, 'ignore': ignore, 'start': ['start'], 'alphabet': alphabet}


# ------------------------------------------------------------------ lalr-friendly profile

def lalr_friendly(rng, p_perturb=0.35, prios=False, n_blocks=None):
    """grammars assembled from blocks that are LR(1) by construction (operator layers, separated
    lists, bracket nesting, keyword statements, optional tails, nullable prefixes/suffixes, the
    textbook LALR-not-SLR and LR(1)-not-LALR shapes, dangling else), then randomly perturbed so that
    a share of them has shift/reduce or reduce/reduce conflicts.  Terminals are single characters
    with distinct spellings, so tokenisation is never in question."""
    rules = []
    used = set()
    cnt = itertools.count()
    L = LIT

    def fresh(base):
        return '%s%d' % (base, next(cnt))

    def leaf():
        used.add(rng.choice(['N', 'X']))
        return ['t', sorted(used & {'N', 'X'})[-1] if rng.random() < 0.5 else rng.choice(sorted(used & {'N', 'X'}))]

    def block(depth=0):
        k = rng.randrange(13)
        if depth > 1 and k in (0, 1, 2):
            k = 3
        if k == 12:      # nullable chain, listed top-down, every level with a non-empty alternative of its own
            used.update('ABC')
            n = rng.randint(3, 5)
            names = [fresh('n') for _ in range(n)]
            w = fresh('w')
            marks = ['+', '*', '-', ',', ';', '=']
            rules.append(rule(w, [alt([['t', 'A'], ['r', names[0]], ['t', 'B']])]))
            for j, nm in enumerate(names):
                nxt = [['r', names[j + 1]]] if j + 1 < n else []
                rules.append(rule(nm, [alt(nxt), alt([['t', 'C'], L(marks[j])])]))
            return w
        if k == 0:       # operator layers
            e, t, f = fresh('e'), fresh('t'), fresh('f')
            m = rng.choice(['', '?'])
            rules.append(rule(e, [alt([['r', e], L('+'), ['r', t]], rng.choice([None, 'add'])), alt([['r', t]])], mods=m))
            rules.append(rule(t, [alt([['r', t], L('*'), ['r', f]]), alt([['r', f]])], mods=m))
            rules.append(rule(f, [alt([leaf()]), alt([L('('), ['r', e], L(')')]), alt([L('-'), ['r', f]], 'neg')], mods=m))
            return e
        if k == 1:       # separated list in brackets (EBNF)
            l = fresh('l')
            item = block(depth + 1) if rng.random() < 0.4 else None
            it = ['r', item] if item else leaf()
            rules.append(rule(l, [alt([L('['), ['m', [alt([it, ['q', ['g', [alt([L(','), it])]], '*', 0, 0]])]], L(']')])]))
            return l
        if k == 2:       # statements and blocks
            s, b = fresh('s'), fresh('b')
            inner = block(depth + 1) if rng.random() < 0.4 else None
            ex = ['r', inner] if inner else leaf()
            rules.append(rule(s, [alt([L('k'), leaf(), L(';')], 'kw'), alt([leaf(), L('='), ex, L(';')], 'asg'), alt([['r', b]])]))
            rules.append(rule(b, [alt([L('{'), ['q', ['r', s], rng.choice('*+'), 0, 0], L('}')])]))
            return s
        if k == 3:       # optional tails
            d = fresh('d')
            used.update('ABC')
            rules.append(rule(d, [alt([['t', 'A'], ['m', [alt([['t', 'B']])]], ['m', [alt([['t', 'C']])]]])]))
            return d
        if k == 4:       # nullable suffixes / prefixes
            a, b, c, d = fresh('a'), fresh('b'), fresh('c'), fresh('d')
            used.update('ABC')
            order = rng.choice([[b, c, d], [c, b, d], [c, d, b], [c, b, c]])
            rules.append(rule(a, [alt([['r', x] for x in order])]))
            rules.append(rule(b, [alt([['t', 'A']]), alt([['t', 'A'], ['r', b]])]))
            rules.append(rule(c, [alt([]), alt([['t', 'B']])]))
            rules.append(rule(d, [alt([]), alt([['t', 'C'], ['r', d]])]))
            return a
        if k == 5:       # dangling else: shift/reduce
            s = fresh('i')
            rules.append(rule(s, [alt([L('i'), ['r', s]], 'if1'), alt([L('i'), ['r', s], L('e'), ['r', s]], 'if2'), alt([leaf()])]))
            return s
        if k == 6:       # LALR, not SLR
            s, l, r = fresh('s'), fresh('l'), fresh('r')
            rules.append(rule(s, [alt([['r', l], L('='), ['r', r]]), alt([['r', r]])]))
            rules.append(rule(l, [alt([L('*'), ['r', r]]), alt([leaf()])]))
            rules.append(rule(r, [alt([['r', l]])]))
            return s
        if k == 7:       # LR(1), not LALR: reduce/reduce after merging
            s, a, b = fresh('s'), fresh('a'), fresh('b')
            used.update('ABC')
            pa, pb = (rng.choice([(None, None), (None, None), (2, 1), (1, 1), (-1, None)]) if prios else (None, None))
            rules.append(rule(s, [alt([['t', 'A'], ['r', a], L('d')]), alt([['t', 'B'], ['r', b], L('d')]),
                                  alt([['t', 'A'], ['r', b], L('e')]), alt([['t', 'B'], ['r', a], L('e')])]))
            rules.append(rule(a, [alt([['t', 'C']])], prio=pa))
            rules.append(rule(b, [alt([['t', 'C']])], prio=pb))
            return s
        if k == 8:       # plain reduce/reduce (two rules, same body), optionally prioritised
            s, a, b = fresh('s'), fresh('a'), fresh('b')
            pa, pb = (rng.choice([(None, None), (2, 1), (1, 2), (1, 1), (0, -1), (3, None)]) if prios else (None, None))
            x = leaf()
            tail = rng.choice([[], [L(';')]])
            rules.append(rule(s, [alt([['r', a]] + tail), alt([['r', b]] + tail + rng.choice([[], [L('!')]]))]))
            rules.append(rule(a, [alt([x])], prio=pa))
            rules.append(rule(b, [alt([x])], prio=pb))
            return s
        if k == 9:       # right-recursive list with trailing optional separator
            l = fresh('l')
            rules.append(rule(l, [alt([leaf()]), alt([leaf(), L(','), ['r', l]]), alt([leaf(), L(',')])]))
            return l
        if k == 10:      # palindromic nesting with empty centre
            p = fresh('p')
            rules.append(rule(p, [alt([L('('), ['r', p], L(')')]), alt([L('['), ['r', p], L(']')]), alt([])]))
            return p
        # k == 11: inlined list rule, left recursive (LALR in-place child reuse)
        l, i = fresh('l'), '_' + fresh('i')
        rules.append(rule(l, [alt([['r', i]])]))
        rules.append(rule(i, [alt([['r', i], leaf()]), alt([leaf()])]))
        return l

    nb = n_blocks or rng.randint(1, 3)
    tops = [block() for _ in range(nb)]
    shape = rng.randrange(4)
    if len(tops) == 1 or shape == 0:
        start_alts = [alt([['r', t]]) for t in tops]
    elif shape == 1:
        start_alts = [alt([['r', t] for t in tops])]
    elif shape == 2:
        start_alts = [alt([['q', ['g', [alt([['r', t]]) for t in tops]], '+', 0, 0]])]
    else:
        start_alts = [alt([['r', tops[0]], L('#'), ['r', tops[-1]]]), alt([['r', tops[len(tops) // 2]]])]
    rules.insert(0, rule('start', start_alts))
    starts = ['start']
    if rng.random() < 0.15 and len(tops) > 1:
        starts.append(tops[-1])
    # perturbation
    if rng.random() < p_perturb:
        for _ in range(rng.randint(1, 2)):
            r = rng.choice(rules)
            a = rng.choice(r['alts'])
            k = rng.randrange(4)
            names = [x['name'] for x in rules]
            if k == 0 and a['items']:
                a['items'].pop(rng.randrange(len(a['items'])))
            elif k == 1:
                a['items'].insert(rng.randint(0, len(a['items'])), rng.choice([['r', rng.choice(names)], leaf(), L(rng.choice('+;,'))]))
            elif k == 2:
                other = rng.choice(rules)
                new = alt(list(rng.choice(other['alts'])['items']))
                if not any(x['items'] == new['items'] for x in r['alts']):
                    r['alts'].append(new)
            elif a['items']:
                a['items'][rng.randrange(len(a['items']))] = rng.choice([['r', rng.choice(names)], leaf()])
        # remove duplicate alternatives the perturbation may have produced
        for r in rules:
            seen, out = [], []
            for a in r['alts']:
                if a['items'] not in seen:
                    seen.append(a['items'])
                    out.append(a)
            r['alts'] = out
    if prios:
        for r in rules:
            if r['prio'] is None and rng.random() < 0.2:
                r['prio'] = rng.choice([-1, 1, 2])
    tdefs = {'N': ['x', '[0-9]', ''], 'X': ['s', 'x', ''], 'A': ['s', 'a', ''], 'B': ['s', 'b', ''], 'C': ['s', 'c', '']}
    exs = {'N': ['7', '3'], 'X': ['x'], 'A': ['a'], 'B': ['b'], 'C': ['c']}
    for r in rules:
        for a in r['alts']:
            _collect_terms(a['items'], used)
    terms = [term(n, tdefs[n], ex=exs[n]) for n in sorted(used)]
    return {'rules': rules, 'terms': terms, 'ignore': [], 'start': starts, 'alphabet': list('7xabc+*()-[],k;={}ie#!d')}


def _collect_terms(items, used):
    for it in items:
        if it[0] == 't':
            used.add(it[1])
        elif it[0] in ('g', 'm'):
            for a in it[1]:
                _collect_terms(a['items'], used)
        elif it[0] == 'q':
            _collect_terms([it[1]], used)


def prune(G):
    """drop rules (and named terminals) that cannot be reached from the start symbols, so that the
    set of terminals the lexer knows does not depend on how lark treats unused definitions"""
    by = {r['name']: r for r in G['rules']}
    seen, terms = set(), set(G.get('ignore', []))
    st = list(G.get('start') or ['start'])

    def walk(items):
        for it in items:
            k = it[0]
            if k == 'r':
                st.append(it[1])
            elif k == 't':
                terms.add(it[1])
            elif k in ('g', 'm'):
                for a in it[1]:
                    walk(a['items'])
            elif k == 'q':
                walk([it[1]])
            elif k == 'c':
                st.append(it[1])
                walk(it[2])
    while st:
        n = st.pop()
        if n in seen or n not in by:
            continue
        seen.add(n)
        for a in by[n]['alts']:
            walk(a['items'])
    G = dict(G)
    G['rules'] = [r for r in G['rules'] if r['name'] in seen]
    G['terms'] = [t for t in G.get('terms', []) if t['name'] in terms]
    return G

#!/bin/sh
# offline setup: nothing to build (pure stdlib harness, lark runs from /repo's working tree)
cd "$(dirname "$0")" || exit 1
mkdir -p evidence replays
/venv/bin/python -c "import sys; assert sys.version_info[:2] >= (3, 12), sys.version; sys.monitoring.PROFILER_ID" || exit 1
PYTHONPATH=/repo /venv/bin/python -c "import lark, os; assert os.path.abspath(lark.__file__).startswith('/repo/'), lark.__file__; print('lark', lark.__version__, 'from', lark.__file__)" || exit 1
echo setup ok
